package exppipe

import (
	"fmt"
	"strings"

	"github.com/bufbuild/protocompile/internal/verifmon/vlib"
)

// Rule-tagged mutators: each breaks exactly one catalogued rule of the
// language on an otherwise valid generated workspace. They return false when
// the workspace offers no place to apply them.

type mutator struct {
	Rule  string
	Apply func(g *gWorkspace, r *vlib.RNG) bool
}

func nonSchemaFiles(g *gWorkspace) []*gFile {
	var out []*gFile
	for i, f := range g.Files {
		if i == g.OptFile {
			continue
		}
		out = append(out, f)
	}
	return out
}

func pickFile(g *gWorkspace, r *vlib.RNG, pred func(*gFile) bool) *gFile {
	var c []*gFile
	for _, f := range nonSchemaFiles(g) {
		if pred == nil || pred(f) {
			c = append(c, f)
		}
	}
	if len(c) == 0 {
		return nil
	}
	return vlib.Pick(r, c)
}

func pickMsg(g *gWorkspace, r *vlib.RNG, pred func(*gFile, *gMsg) bool) (*gFile, *gMsg) {
	type fm struct {
		f *gFile
		m *gMsg
	}
	var c []fm
	for _, f := range nonSchemaFiles(g) {
		for _, m := range f.allMsgs() {
			if pred == nil || pred(f, m) {
				c = append(c, fm{f, m})
			}
		}
	}
	if len(c) == 0 {
		return nil, nil
	}
	x := vlib.Pick(r, c)
	return x.f, x.m
}

func plainFields(m *gMsg) []*gField {
	var out []*gField
	for _, f := range m.Fields {
		if f.Kind != "group" {
			out = append(out, f)
		}
	}
	return out
}

func lbl(f *gFile, want string) string {
	// a label that is legal in the file's syntax for an ordinary scalar field
	switch f.Syntax {
	case "proto2":
		if want == "" {
			return "optional"
		}
		return want
	case "proto3":
		if want == "required" {
			return "required"
		}
		return want
	default:
		if want == "optional" {
			return ""
		}
		return want
	}
}

func addField(f *gFile, m *gMsg, typ, name string, num int, opts ...string) *gField {
	fl := &gField{Label: lbl(f, "optional"), Type: typ, Kind: "scalar", Name: name, Num: num, Opts: opts}
	if f.Syntax == "proto3" {
		fl.Label = ""
	}
	m.Fields = append(m.Fields, fl)
	return fl
}

func hasDefault(fl *gField) bool {
	for _, o := range fl.Opts {
		if strings.HasPrefix(o, "default = ") {
			return true
		}
	}
	return false
}

var mutators = []mutator{
	{"field.duplicate-tag", func(g *gWorkspace, r *vlib.RNG) bool {
		f, m := pickMsg(g, r, nil)
		if m == nil {
			return false
		}
		addField(f, m, "int32", "dup_a", 7001)
		addField(f, m, "string", "dup_b", 7001)
		return true
	}},
	{"field.duplicate-name", func(g *gWorkspace, r *vlib.RNG) bool {
		f, m := pickMsg(g, r, nil)
		if m == nil {
			return false
		}
		addField(f, m, "int32", "dup_name", 7001)
		addField(f, m, "string", "dup_name", 7002)
		return true
	}},
	{"field.unknown-type", func(g *gWorkspace, r *vlib.RNG) bool {
		f, m := pickMsg(g, r, nil)
		if m == nil {
			return false
		}
		addField(f, m, "NoSuchType", "unk", 7001)
		return true
	}},
	{"field.type-is-not-a-type", func(g *gWorkspace, r *vlib.RNG) bool {
		// refers to a field / package instead of a type
		f, m := pickMsg(g, r, func(f *gFile, m *gMsg) bool { return f.Pkg != "" })
		if m == nil {
			return false
		}
		addField(f, m, "."+f.Pkg, "notatype", 7001)
		return true
	}},
	{"field.tag-zero", func(g *gWorkspace, r *vlib.RNG) bool {
		f, m := pickMsg(g, r, nil)
		if m == nil {
			return false
		}
		addField(f, m, "int32", "tagzero", 0)
		return true
	}},
	{"field.tag-in-implementation-reserved-range", func(g *gWorkspace, r *vlib.RNG) bool {
		f, m := pickMsg(g, r, nil)
		if m == nil {
			return false
		}
		addField(f, m, "int32", "tag19k", 19000+r.Intn(1000))
		return true
	}},
	{"field.tag-above-max", func(g *gWorkspace, r *vlib.RNG) bool {
		f, m := pickMsg(g, r, nil)
		if m == nil {
			return false
		}
		addField(f, m, "int32", "tagmax", 536870912)
		return true
	}},
	{"field.tag-in-reserved-range", func(g *gWorkspace, r *vlib.RNG) bool {
		f, m := pickMsg(g, r, nil)
		if m == nil {
			return false
		}
		addField(f, m, "int32", "inres", 7005)
		m.Reserved = append(m.Reserved, "reserved 7000 to 7010;")
		return true
	}},
	{"field.name-is-reserved", func(g *gWorkspace, r *vlib.RNG) bool {
		f, m := pickMsg(g, r, nil)
		if m == nil {
			return false
		}
		addField(f, m, "int32", "resname", 7005)
		if f.Syntax == "editions" {
			m.Reserved = append(m.Reserved, "reserved resname;")
		} else {
			m.Reserved = append(m.Reserved, `reserved "resname";`)
		}
		return true
	}},
	{"field.tag-in-extension-range", func(g *gWorkspace, r *vlib.RNG) bool {
		f, m := pickMsg(g, r, func(f *gFile, m *gMsg) bool { return len(m.ExtRange) > 0 })
		if m == nil {
			return false
		}
		addField(f, m, "int32", "inext", m.ExtRange[0][0])
		return true
	}},
	{"message.reserved-ranges-overlap", func(g *gWorkspace, r *vlib.RNG) bool {
		_, m := pickMsg(g, r, nil)
		if m == nil {
			return false
		}
		m.Reserved = append(m.Reserved, "reserved 8000 to 8010;", "reserved 8005;")
		return true
	}},
	{"message.extension-ranges-overlap", func(g *gWorkspace, r *vlib.RNG) bool {
		_, m := pickMsg(g, r, func(f *gFile, m *gMsg) bool { return f.Syntax != "proto3" })
		if m == nil {
			return false
		}
		m.ExtRange = append(m.ExtRange, [2]int{9000, 9010}, [2]int{9005, 9020})
		return true
	}},
	{"message.reserved-overlaps-extension-range", func(g *gWorkspace, r *vlib.RNG) bool {
		_, m := pickMsg(g, r, func(f *gFile, m *gMsg) bool { return f.Syntax != "proto3" })
		if m == nil {
			return false
		}
		m.ExtRange = append(m.ExtRange, [2]int{9000, 9010})
		m.Reserved = append(m.Reserved, "reserved 9005;")
		return true
	}},
	{"proto3.required-field", func(g *gWorkspace, r *vlib.RNG) bool {
		f, m := pickMsg(g, r, func(f *gFile, m *gMsg) bool { return f.Syntax == "proto3" })
		if m == nil {
			return false
		}
		addField(f, m, "int32", "req", 7001).Label = "required"
		return true
	}},
	{"proto3.default-value", func(g *gWorkspace, r *vlib.RNG) bool {
		f, m := pickMsg(g, r, func(f *gFile, m *gMsg) bool { return f.Syntax == "proto3" })
		if m == nil {
			return false
		}
		addField(f, m, "int32", "dflt", 7001, "default = 3")
		return true
	}},
	{"enum.value-names-collide-after-prefix-stripping", func(g *gWorkspace, r *vlib.RNG) bool {
		// COLOR_RED and RED have the same canonical (JSON) name; legal only as aliases of one number
		f := pickFile(g, r, func(f *gFile) bool { return f.Syntax != "proto2" })
		if f == nil {
			return false
		}
		// with and without allow_alias: aliases of ONE number may share a canonical name, different numbers may not
		for _, alias := range []bool{true, false} {
			n := g.name("Hue")
			up := strings.ToUpper(n)
			e := &gEnum{Name: n, Alias: alias, Vals: []gEnumVal{{Name: up + "_RED", Num: 0}}}
			if alias {
				e.Vals = append(e.Vals, gEnumVal{Name: "RED", Num: 0})
			}
			e.Vals = append(e.Vals, gEnumVal{Name: up + "_BLUE", Num: 1}, gEnumVal{Name: vlib.Pick(r, []string{"BLUE", "blue", "Blue"}), Num: 2})
			f.Enums = append(f.Enums, e)
			if r.Chance(0.5) {
				break // the aliased enum alone
			}
		}
		return true
	}},
	{"proto3.enum-first-value-nonzero", func(g *gWorkspace, r *vlib.RNG) bool {
		f := pickFile(g, r, func(f *gFile) bool { return f.Syntax == "proto3" })
		if f == nil {
			return false
		}
		f.Enums = append(f.Enums, &gEnum{Name: "BadFirst", Vals: []gEnumVal{{Name: "BADFIRST_ONE", Num: 1}, {Name: "BADFIRST_ZERO", Num: 0}}})
		return true
	}},
	{"proto3.extension-range", func(g *gWorkspace, r *vlib.RNG) bool {
		_, m := pickMsg(g, r, func(f *gFile, m *gMsg) bool { return f.Syntax == "proto3" })
		if m == nil {
			return false
		}
		m.ExtRange = append(m.ExtRange, [2]int{9000, 9010})
		return true
	}},
	{"proto3.group", func(g *gWorkspace, r *vlib.RNG) bool {
		f := pickFile(g, r, func(f *gFile) bool { return f.Syntax == "proto3" })
		if f == nil {
			return false
		}
		f.Tail += "message HasGroup { repeated group Grp = 1 { int32 a = 1; } }\n"
		return true
	}},
	{"proto3.extend-non-option-message", func(g *gWorkspace, r *vlib.RNG) bool {
		// a proto3 file that can see a message with an extension range
		for _, f := range nonSchemaFiles(g) {
			if f.Syntax != "proto3" {
				continue
			}
			for _, v := range g.visibleFiles(f) {
				for _, m := range v.allMsgs() {
					if len(m.ExtRange) > 0 && v != f {
						f.Tail += fmt.Sprintf("extend .%s { int32 p3ext = %d; }\n", m.Full, m.ExtRange[0][1])
						return true
					}
				}
			}
		}
		return false
	}},
	{"proto2.missing-label", func(g *gWorkspace, r *vlib.RNG) bool {
		f, m := pickMsg(g, r, func(f *gFile, m *gMsg) bool { return f.Syntax == "proto2" })
		if m == nil {
			return false
		}
		addField(f, m, "int32", "nolabel", 7001).Label = ""
		return true
	}},
	{"editions.optional-label", func(g *gWorkspace, r *vlib.RNG) bool {
		f, m := pickMsg(g, r, func(f *gFile, m *gMsg) bool { return f.Syntax == "editions" })
		if m == nil {
			return false
		}
		addField(f, m, "int32", "optlabel", 7001).Label = "optional"
		return true
	}},
	{"editions.required-label", func(g *gWorkspace, r *vlib.RNG) bool {
		f, m := pickMsg(g, r, func(f *gFile, m *gMsg) bool { return f.Syntax == "editions" })
		if m == nil {
			return false
		}
		addField(f, m, "int32", "reqlabel", 7001).Label = "required"
		return true
	}},
	{"editions.packed-option", func(g *gWorkspace, r *vlib.RNG) bool {
		f, m := pickMsg(g, r, func(f *gFile, m *gMsg) bool { return f.Syntax == "editions" })
		if m == nil {
			return false
		}
		addField(f, m, "int32", "packedopt", 7001, "packed = true").Label = "repeated"
		return true
	}},
	{"editions.group-syntax", func(g *gWorkspace, r *vlib.RNG) bool {
		f := pickFile(g, r, func(f *gFile) bool { return f.Syntax == "editions" })
		if f == nil {
			return false
		}
		f.Tail += "message HasGroup { group Grp = 1 { int32 a = 1; } }\n"
		return true
	}},
	{"editions.implicit-presence-with-default", func(g *gWorkspace, r *vlib.RNG) bool {
		f, m := pickMsg(g, r, func(f *gFile, m *gMsg) bool { return f.Syntax == "editions" })
		if m == nil {
			return false
		}
		addField(f, m, "int32", "impdef", 7001, "default = 4", "features.field_presence = IMPLICIT")
		return true
	}},
	{"editions.features-in-proto2", func(g *gWorkspace, r *vlib.RNG) bool {
		f, m := pickMsg(g, r, func(f *gFile, m *gMsg) bool { return f.Syntax == "proto2" })
		if m == nil {
			return false
		}
		addField(f, m, "int32", "feat", 7001, "features.field_presence = IMPLICIT")
		return true
	}},
	{"editions.feature-wrong-target", func(g *gWorkspace, r *vlib.RNG) bool {
		_, m := pickMsg(g, r, func(f *gFile, m *gMsg) bool { return f.Syntax == "editions" })
		if m == nil {
			return false
		}
		m.Opts = append(m.Opts, "features.enum_type = CLOSED")
		return true
	}},
	{"editions.unknown-edition", func(g *gWorkspace, r *vlib.RNG) bool {
		f := pickFile(g, r, func(f *gFile) bool { return f.Syntax == "editions" })
		if f == nil {
			return false
		}
		s := strings.Replace(f.render(), `edition = "2023";`, `edition = "2020";`, 1)
		f.Raw = &s
		return true
	}},
	{"symbol.duplicate-in-file", func(g *gWorkspace, r *vlib.RNG) bool {
		f := pickFile(g, r, func(f *gFile) bool { return len(f.Msgs) > 0 })
		if f == nil {
			return false
		}
		f.Tail += fmt.Sprintf("message %s {}\n", f.Msgs[0].Name)
		return true
	}},
	{"symbol.message-vs-enum-same-name", func(g *gWorkspace, r *vlib.RNG) bool {
		f := pickFile(g, r, func(f *gFile) bool { return len(f.Msgs) > 0 })
		if f == nil {
			return false
		}
		f.Tail += fmt.Sprintf("enum %s { %s_ZERO = 0; }\n", f.Msgs[0].Name, strings.ToUpper(f.Msgs[0].Name))
		return true
	}},
	{"symbol.enum-value-sibling-scope", func(g *gWorkspace, r *vlib.RNG) bool {
		// enum values live in the scope enclosing the enum
		f := pickFile(g, r, nil)
		if f == nil {
			return false
		}
		f.Tail += "enum SibA { SIB_SHARED = 0; }\nenum SibB { SIB_SHARED = 0; }\n"
		return true
	}},
	{"symbol.duplicate-across-imported-file", func(g *gWorkspace, r *vlib.RNG) bool {
		// redefine, in an importer, a top-level message of a directly imported file with the same package
		for _, f := range nonSchemaFiles(g) {
			for _, v := range g.visibleFiles(f) {
				if v != f && v.Pkg == f.Pkg && len(v.Msgs) > 0 && v != g.schemaFile() {
					f.Tail += fmt.Sprintf("message %s {}\n", v.Msgs[0].Name)
					return true
				}
			}
		}
		return false
	}},
	{"symbol.duplicate-across-unrelated-files", func(g *gWorkspace, r *vlib.RNG) bool {
		// two requested files that do not import each other define the same full name
		fs := nonSchemaFiles(g)
		for i := 0; i < len(fs); i++ {
			for j := i + 1; j < len(fs); j++ {
				a, b := fs[i], fs[j]
				if a.Pkg != b.Pkg {
					continue
				}
				rel := false
				for _, v := range g.visibleFiles(b) {
					if v == a {
						rel = true
					}
				}
				for _, im := range b.Imports {
					if im.Path == a.Path {
						rel = true
					}
				}
				if rel || g.reaches(b, a) {
					continue
				}
				a.Tail += "message CrossDup {}\n"
				b.Tail += "message CrossDup {}\n"
				return true
			}
		}
		return false
	}},
	{"symbol.type-name-equals-package", func(g *gWorkspace, r *vlib.RNG) bool {
		// a top-level message named like the first component of a package that is in use
		f := pickFile(g, r, func(f *gFile) bool { return f.Pkg == "" })
		var other *gFile
		for _, o := range nonSchemaFiles(g) {
			if o.Pkg != "" {
				other = o
			}
		}
		if f == nil || other == nil {
			return false
		}
		// f must see other's package: import it
		if f == other {
			return false
		}
		if !g.reaches(other, f) && !g.imports(f, other) {
			f.Imports = append(f.Imports, gImport{Path: other.Path})
		} else if !g.imports(f, other) {
			return false
		}
		f.Tail += fmt.Sprintf("message %s {}\n", strings.Split(other.Pkg, ".")[0])
		return true
	}},
	{"import.missing-file", func(g *gWorkspace, r *vlib.RNG) bool {
		f := pickFile(g, r, nil)
		if f == nil {
			return false
		}
		f.Imports = append(f.Imports, gImport{Path: "no/such/file.proto"})
		return true
	}},
	{"import.duplicate", func(g *gWorkspace, r *vlib.RNG) bool {
		f := pickFile(g, r, func(f *gFile) bool { return len(f.Imports) > 0 })
		if f == nil {
			return false
		}
		f.Imports = append(f.Imports, gImport{Path: f.Imports[0].Path})
		return true
	}},
	{"import.self", func(g *gWorkspace, r *vlib.RNG) bool {
		f := pickFile(g, r, nil)
		if f == nil {
			return false
		}
		f.Imports = append(f.Imports, gImport{Path: f.Path})
		return true
	}},
	{"import.cycle", func(g *gWorkspace, r *vlib.RNG) bool {
		// close a cycle: an imported file imports its importer
		for _, f := range nonSchemaFiles(g) {
			for _, im := range f.Imports {
				for _, t := range nonSchemaFiles(g) {
					if t.Path == im.Path {
						t.Imports = append(t.Imports, gImport{Path: f.Path})
						return true
					}
				}
			}
		}
		return false
	}},
	{"import.needed-import-removed", func(g *gWorkspace, r *vlib.RNG) bool {
		// use a type of a file that is not imported (directly or publicly)
		for _, f := range nonSchemaFiles(g) {
			vis := map[*gFile]bool{}
			for _, v := range g.visibleFiles(f) {
				vis[v] = true
			}
			for _, o := range nonSchemaFiles(g) {
				if !vis[o] && len(o.Msgs) > 0 && len(f.Msgs) > 0 && !g.reaches(o, f) {
					addField(f, f.Msgs[0], "."+o.Msgs[0].Full, "unimported", 7001).Kind = "message"
					return true
				}
			}
		}
		return false
	}},
	{"import.transitive-non-public-not-visible", func(g *gWorkspace, r *vlib.RNG) bool {
		// a -> b -> c (plain imports): a uses a type of c
		for _, a := range nonSchemaFiles(g) {
			vis := map[*gFile]bool{}
			for _, v := range g.visibleFiles(a) {
				vis[v] = true
			}
			for _, b := range g.visibleFiles(a) {
				if b == a {
					continue
				}
				for _, c := range g.visibleFiles(b) {
					if c != b && c != a && !vis[c] && len(c.Msgs) > 0 && len(a.Msgs) > 0 && c != g.schemaFile() {
						addField(a, a.Msgs[0], "."+c.Msgs[0].Full, "transitive", 7001).Kind = "message"
						return true
					}
				}
			}
		}
		return false
	}},
	{"enum.duplicate-number-without-allow-alias", func(g *gWorkspace, r *vlib.RNG) bool {
		f := pickFile(g, r, nil)
		if f == nil {
			return false
		}
		f.Tail += "enum NoAlias { NOALIAS_A = 0; NOALIAS_B = 0; }\n"
		return true
	}},
	{"enum.allow-alias-without-alias", func(g *gWorkspace, r *vlib.RNG) bool {
		f := pickFile(g, r, nil)
		if f == nil {
			return false
		}
		f.Tail += "enum UselessAlias { option allow_alias = true; UA_A = 0; UA_B = 1; }\n"
		return true
	}},
	{"enum.no-values", func(g *gWorkspace, r *vlib.RNG) bool {
		f := pickFile(g, r, nil)
		if f == nil {
			return false
		}
		f.Tail += "enum Empty {}\n"
		return true
	}},
	{"enum.duplicate-value-name", func(g *gWorkspace, r *vlib.RNG) bool {
		f := pickFile(g, r, nil)
		if f == nil {
			return false
		}
		f.Tail += "enum DupVal { DV_A = 0; DV_A = 1; }\n"
		return true
	}},
	{"enum.value-in-reserved-range", func(g *gWorkspace, r *vlib.RNG) bool {
		f := pickFile(g, r, nil)
		if f == nil {
			return false
		}
		f.Tail += "enum ResVal { RV_A = 0; RV_B = 5; reserved 4 to 6; }\n"
		return true
	}},
	{"enum.value-name-reserved", func(g *gWorkspace, r *vlib.RNG) bool {
		f := pickFile(g, r, nil)
		if f == nil {
			return false
		}
		if f.Syntax == "editions" {
			f.Tail += "enum ResName { RN_A = 0; RN_B = 1; reserved RN_B; }\n"
		} else {
			f.Tail += "enum ResName { RN_A = 0; RN_B = 1; reserved \"RN_B\"; }\n"
		}
		return true
	}},
	{"enum.value-out-of-int32", func(g *gWorkspace, r *vlib.RNG) bool {
		f := pickFile(g, r, nil)
		if f == nil {
			return false
		}
		f.Tail += "enum BigVal { BV_A = 0; BV_B = 2147483648; }\n"
		return true
	}},
	{"default.wrong-kind-string-for-int", func(g *gWorkspace, r *vlib.RNG) bool {
		f, m := pickMsg(g, r, func(f *gFile, m *gMsg) bool { return f.Syntax == "proto2" })
		if m == nil {
			return false
		}
		addField(f, m, "int32", "baddef", 7001, `default = "str"`)
		return true
	}},
	{"default.wrong-kind-int-for-string", func(g *gWorkspace, r *vlib.RNG) bool {
		f, m := pickMsg(g, r, func(f *gFile, m *gMsg) bool { return f.Syntax == "proto2" })
		if m == nil {
			return false
		}
		addField(f, m, "string", "baddef", 7001, `default = 5`)
		return true
	}},
	{"default.int-out-of-range", func(g *gWorkspace, r *vlib.RNG) bool {
		f, m := pickMsg(g, r, func(f *gFile, m *gMsg) bool { return f.Syntax == "proto2" })
		if m == nil {
			return false
		}
		typ, v := "int32", "2147483648"
		switch r.Intn(4) {
		case 1:
			typ, v = "uint32", "-1"
		case 2:
			typ, v = "uint64", "18446744073709551616"
		case 3:
			typ, v = "sint32", "-2147483649"
		}
		addField(f, m, typ, "rangedef", 7001, "default = "+v)
		return true
	}},
	{"default.unknown-enum-value", func(g *gWorkspace, r *vlib.RNG) bool {
		f := pickFile(g, r, func(f *gFile) bool { return f.Syntax == "proto2" })
		if f == nil {
			return false
		}
		f.Tail += "enum DefE { DEFE_A = 0; }\nmessage DefM { optional DefE e = 1 [default = DEFE_NOPE]; }\n"
		return true
	}},
	{"default.enum-by-number", func(g *gWorkspace, r *vlib.RNG) bool {
		f := pickFile(g, r, func(f *gFile) bool { return f.Syntax == "proto2" })
		if f == nil {
			return false
		}
		f.Tail += "enum DefE { DEFE_A = 0; }\nmessage DefM { optional DefE e = 1 [default = 0]; }\n"
		return true
	}},
	{"default.on-repeated-field", func(g *gWorkspace, r *vlib.RNG) bool {
		f, m := pickMsg(g, r, func(f *gFile, m *gMsg) bool { return f.Syntax == "proto2" })
		if m == nil {
			return false
		}
		addField(f, m, "int32", "repdef", 7001, "default = 1").Label = "repeated"
		return true
	}},
	{"default.on-message-field", func(g *gWorkspace, r *vlib.RNG) bool {
		f, m := pickMsg(g, r, func(f *gFile, m *gMsg) bool { return f.Syntax == "proto2" })
		if m == nil {
			return false
		}
		fl := addField(f, m, "."+m.Full, "msgdef", 7001, "default = 1")
		fl.Kind = "message"
		return true
	}},
	{"default.bool-wrong-literal", func(g *gWorkspace, r *vlib.RNG) bool {
		f, m := pickMsg(g, r, func(f *gFile, m *gMsg) bool { return f.Syntax == "proto2" })
		if m == nil {
			return false
		}
		addField(f, m, "bool", "booldef", 7001, "default = 1")
		return true
	}},
	{"default.specified-twice", func(g *gWorkspace, r *vlib.RNG) bool {
		f, m := pickMsg(g, r, func(f *gFile, m *gMsg) bool { return f.Syntax == "proto2" })
		if m == nil {
			return false
		}
		addField(f, m, "int32", "twicedef", 7001, "default = 1", "default = 2")
		return true
	}},
	{"json-name.conflict", func(g *gWorkspace, r *vlib.RNG) bool {
		f, m := pickMsg(g, r, func(f *gFile, m *gMsg) bool { return f.Syntax == "proto3" })
		if m == nil {
			return false
		}
		addField(f, m, "int32", "foo_bar", 7001)
		addField(f, m, "int32", "fooBar", 7002)
		return true
	}},
	{"json-name.on-extension", func(g *gWorkspace, r *vlib.RNG) bool {
		_, m := pickMsg(g, r, func(f *gFile, m *gMsg) bool { return f.Syntax == "proto2" && len(m.ExtRange) > 0 })
		if m == nil {
			return false
		}
		m.file.Tail += fmt.Sprintf("extend .%s { optional int32 jsonext = %d [json_name = \"x\"]; }\n", m.Full, m.ExtRange[0][1])
		return true
	}},
	{"oneof.empty", func(g *gWorkspace, r *vlib.RNG) bool {
		_, m := pickMsg(g, r, nil)
		if m == nil {
			return false
		}
		m.Oneofs = append(m.Oneofs, &gOneof{Name: "empty_oneof"})
		return true
	}},
	{"oneof.field-with-label", func(g *gWorkspace, r *vlib.RNG) bool {
		_, m := pickMsg(g, r, nil)
		if m == nil {
			return false
		}
		m.Oneofs = append(m.Oneofs, &gOneof{Name: "lab_oneof", Fields: []*gField{{Label: "repeated", Type: "int32", Kind: "scalar", Name: "lab_in_oneof", Num: 7001}}})
		return true
	}},
	{"oneof.map-field", func(g *gWorkspace, r *vlib.RNG) bool {
		_, m := pickMsg(g, r, nil)
		if m == nil {
			return false
		}
		m.Oneofs = append(m.Oneofs, &gOneof{Name: "map_oneof", Fields: []*gField{{Type: "map<string, int32>", Kind: "map", Name: "map_in_oneof", Num: 7001}}})
		return true
	}},
	{"map.float-key", func(g *gWorkspace, r *vlib.RNG) bool {
		_, m := pickMsg(g, r, nil)
		if m == nil {
			return false
		}
		m.Fields = append(m.Fields, &gField{Type: "map<" + vlib.Pick(r, []string{"float", "double", "bytes"}) + ", int32>", Kind: "map", Name: "badkey", Num: 7001})
		return true
	}},
	{"map.message-key", func(g *gWorkspace, r *vlib.RNG) bool {
		_, m := pickMsg(g, r, nil)
		if m == nil {
			return false
		}
		m.Fields = append(m.Fields, &gField{Type: "map<." + m.Full + ", int32>", Kind: "map", Name: "msgkey", Num: 7001})
		return true
	}},
	{"map.repeated-label", func(g *gWorkspace, r *vlib.RNG) bool {
		_, m := pickMsg(g, r, nil)
		if m == nil {
			return false
		}
		m.Fields = append(m.Fields, &gField{Label: "repeated", Type: "map<string, int32>", Kind: "map", Name: "repmap", Num: 7001})
		return true
	}},
	{"map.entry-name-collision", func(g *gWorkspace, r *vlib.RNG) bool {
		_, m := pickMsg(g, r, nil)
		if m == nil {
			return false
		}
		m.Fields = append(m.Fields, &gField{Type: "map<string, int32>", Kind: "map", Name: "coll", Num: 7001})
		m.Nested = append(m.Nested, &gMsg{Name: "CollEntry", Full: m.Full + ".CollEntry"})
		return true
	}},
	{"map.explicit-reference-to-entry", func(g *gWorkspace, r *vlib.RNG) bool {
		f, m := pickMsg(g, r, nil)
		if m == nil {
			return false
		}
		m.Fields = append(m.Fields, &gField{Type: "map<string, int32>", Kind: "map", Name: "refd", Num: 7001})
		addField(f, m, "RefdEntry", "to_entry", 7002).Kind = "message"
		return true
	}},
	{"extension.number-outside-range", func(g *gWorkspace, r *vlib.RNG) bool {
		_, m := pickMsg(g, r, func(f *gFile, m *gMsg) bool {
			return f.Syntax == "proto2" && len(m.ExtRange) > 0 && m.ExtRange[len(m.ExtRange)-1][1] < 100000
		})
		if m == nil {
			return false
		}
		m.file.Tail += fmt.Sprintf("extend .%s { optional int32 outofrange = 400000; }\n", m.Full)
		return true
	}},
	{"extension.duplicate-number", func(g *gWorkspace, r *vlib.RNG) bool {
		_, m := pickMsg(g, r, func(f *gFile, m *gMsg) bool { return f.Syntax == "proto2" && len(m.ExtRange) > 0 })
		if m == nil {
			return false
		}
		n := m.ExtRange[0][1]
		m.file.Tail += fmt.Sprintf("extend .%s { optional int32 dupext_a = %d; optional int32 dupext_b = %d; }\n", m.Full, n, n)
		return true
	}},
	{"extension.duplicate-number-across-files", func(g *gWorkspace, r *vlib.RNG) bool {
		// two importers of the same extendable message claim the same number
		for _, base := range nonSchemaFiles(g) {
			for _, m := range base.allMsgs() {
				if len(m.ExtRange) == 0 || base.Syntax == "proto3" {
					continue
				}
				var users []*gFile
				for _, f := range nonSchemaFiles(g) {
					if f == base || f.Syntax != "proto2" {
						continue
					}
					if g.imports(f, base) {
						users = append(users, f)
					}
				}
				if len(users) >= 2 {
					n := m.ExtRange[0][1]
					users[0].Tail += fmt.Sprintf("extend .%s { optional int32 xdup_a = %d; }\n", m.Full, n)
					users[1].Tail += fmt.Sprintf("extend .%s { optional int32 xdup_b = %d; }\n", m.Full, n)
					return true
				}
			}
		}
		return false
	}},
	{"extension.extendee-is-enum", func(g *gWorkspace, r *vlib.RNG) bool {
		f := pickFile(g, r, func(f *gFile) bool { return f.Syntax == "proto2" })
		if f == nil {
			return false
		}
		f.Tail += "enum NotMsg { NM_A = 0; }\nextend NotMsg { optional int32 onenum = 100; }\n"
		return true
	}},
	{"extension.unknown-extendee", func(g *gWorkspace, r *vlib.RNG) bool {
		f := pickFile(g, r, func(f *gFile) bool { return f.Syntax == "proto2" })
		if f == nil {
			return false
		}
		f.Tail += "extend NoSuchMessage { optional int32 lost = 100; }\n"
		return true
	}},
	{"extension.extendee-without-range", func(g *gWorkspace, r *vlib.RNG) bool {
		_, m := pickMsg(g, r, func(f *gFile, m *gMsg) bool { return f.Syntax == "proto2" && len(m.ExtRange) == 0 })
		if m == nil {
			return false
		}
		m.file.Tail += fmt.Sprintf("extend .%s { optional int32 norange = 100; }\n", m.Full)
		return true
	}},
	{"extension.required", func(g *gWorkspace, r *vlib.RNG) bool {
		_, m := pickMsg(g, r, func(f *gFile, m *gMsg) bool { return f.Syntax == "proto2" && len(m.ExtRange) > 0 })
		if m == nil {
			return false
		}
		m.file.Tail += fmt.Sprintf("extend .%s { required int32 reqext = %d; }\n", m.Full, m.ExtRange[0][1])
		return true
	}},
	{"extension.empty-extend-block", func(g *gWorkspace, r *vlib.RNG) bool {
		_, m := pickMsg(g, r, func(f *gFile, m *gMsg) bool { return f.Syntax == "proto2" && len(m.ExtRange) > 0 })
		if m == nil {
			return false
		}
		m.file.Tail += fmt.Sprintf("extend .%s { }\n", m.Full)
		return true
	}},
	{"option.unknown-name", func(g *gWorkspace, r *vlib.RNG) bool {
		f := pickFile(g, r, nil)
		if f == nil {
			return false
		}
		f.Opts = append(f.Opts, "no_such_option = 1")
		return true
	}},
	{"option.unknown-custom-name", func(g *gWorkspace, r *vlib.RNG) bool {
		f := pickFile(g, r, nil)
		if f == nil {
			return false
		}
		f.Opts = append(f.Opts, "(no.such.ext) = 1")
		return true
	}},
	{"option.wrong-value-kind", func(g *gWorkspace, r *vlib.RNG) bool {
		f := pickFile(g, r, nil)
		if f == nil {
			return false
		}
		f.Opts = append(f.Opts, vlib.Pick(r, []string{"deprecated = 5", `java_multiple_files = "yes"`, "java_package = 7", "optimize_for = 1", "optimize_for = FASTEST", `cc_enable_arenas = maybe`}))
		return true
	}},
	{"option.set-twice", func(g *gWorkspace, r *vlib.RNG) bool {
		f := pickFile(g, r, nil)
		if f == nil {
			return false
		}
		f.Opts = append(f.Opts, `go_package = "a"`, `go_package = "b"`)
		return true
	}},
	{"option.field-of-scalar", func(g *gWorkspace, r *vlib.RNG) bool {
		f := pickFile(g, r, nil)
		if f == nil {
			return false
		}
		f.Opts = append(f.Opts, `java_package.sub = "x"`)
		return true
	}},
	{"option.packed-on-non-repeated", func(g *gWorkspace, r *vlib.RNG) bool {
		f, m := pickMsg(g, r, func(f *gFile, m *gMsg) bool { return f.Syntax != "editions" })
		if m == nil {
			return false
		}
		addField(f, m, "int32", "packedsingle", 7001, "packed = true")
		return true
	}},
	{"option.packed-on-string", func(g *gWorkspace, r *vlib.RNG) bool {
		f, m := pickMsg(g, r, func(f *gFile, m *gMsg) bool { return f.Syntax != "editions" })
		if m == nil {
			return false
		}
		addField(f, m, "string", "packedstr", 7001, "packed = true").Label = "repeated"
		return true
	}},
	{"option.jstype-on-int32", func(g *gWorkspace, r *vlib.RNG) bool {
		f, m := pickMsg(g, r, nil)
		if m == nil {
			return false
		}
		addField(f, m, "int32", "jst", 7001, "jstype = JS_STRING")
		return true
	}},
	{"option.lazy-on-scalar", func(g *gWorkspace, r *vlib.RNG) bool {
		f, m := pickMsg(g, r, nil)
		if m == nil {
			return false
		}
		addField(f, m, "int32", "lazyint", 7001, "lazy = true")
		return true
	}},
	{"option.custom-int-out-of-range", func(g *gWorkspace, r *vlib.RNG) bool {
		s := g.schemaFile()
		if s == nil {
			return false
		}
		f := pickFile(g, r, func(f *gFile) bool { return g.imports(f, s) })
		if f == nil {
			return false
		}
		// the first FileOptions extension of the schema is an int32
		name := s.Pkg + "." + s.Exts[0].Fields[0].Name
		f.Opts = dropOpt(f.Opts, "("+name+")", "(."+name+")")
		f.Opts = append(f.Opts, fmt.Sprintf("(%s) = 99999999999", name))
		return true
	}},
	{"option.custom-unknown-field-in-literal", func(g *gWorkspace, r *vlib.RNG) bool {
		s := g.schemaFile()
		if s == nil {
			return false
		}
		f := pickFile(g, r, func(f *gFile) bool { return g.imports(f, s) })
		if f == nil {
			return false
		}
		name := s.Pkg + "." + s.Exts[0].Fields[2].Name
		f.Opts = dropOpt(f.Opts, "("+name+")", "(."+name+")")
		f.Opts = append(f.Opts, fmt.Sprintf("(%s) = { nosuchfield: 1 }", name))
		return true
	}},
	{"option.custom-unknown-enum-value", func(g *gWorkspace, r *vlib.RNG) bool {
		s := g.schemaFile()
		if s == nil {
			return false
		}
		f := pickFile(g, r, func(f *gFile) bool { return g.imports(f, s) })
		if f == nil {
			return false
		}
		name := s.Pkg + "." + s.Exts[0].Fields[4].Name
		f.Opts = dropOpt(f.Opts, "("+name+")", "(."+name+")")
		f.Opts = append(f.Opts, fmt.Sprintf("(%s) = OE_NOPE", name))
		return true
	}},
	{"option.custom-scalar-set-twice", func(g *gWorkspace, r *vlib.RNG) bool {
		s := g.schemaFile()
		if s == nil {
			return false
		}
		f := pickFile(g, r, func(f *gFile) bool { return g.imports(f, s) })
		if f == nil {
			return false
		}
		name := s.Pkg + "." + s.Exts[0].Fields[1].Name
		f.Opts = dropOpt(f.Opts, "("+name+")", "(."+name+")")
		f.Opts = append(f.Opts, fmt.Sprintf(`(%s) = "a"`, name), fmt.Sprintf(`(%s) = "b"`, name))
		return true
	}},
	{"option.custom-wrong-target-extendee", func(g *gWorkspace, r *vlib.RNG) bool {
		// a FileOptions extension used as a message option
		s := g.schemaFile()
		if s == nil {
			return false
		}
		_, m := pickMsg(g, r, func(f *gFile, m *gMsg) bool { return g.imports(f, s) })
		if m == nil {
			return false
		}
		name := s.Pkg + "." + s.Exts[0].Fields[0].Name
		m.Opts = append(m.Opts, fmt.Sprintf("(%s) = 1", name))
		return true
	}},
	{"option.custom-without-import", func(g *gWorkspace, r *vlib.RNG) bool {
		s := g.schemaFile()
		if s == nil {
			return false
		}
		f := pickFile(g, r, func(f *gFile) bool {
			for _, v := range g.visibleFiles(f) {
				if v == s {
					return false
				}
			}
			return true
		})
		if f == nil {
			return false
		}
		name := s.Pkg + "." + s.Exts[0].Fields[0].Name
		f.Opts = append(f.Opts, fmt.Sprintf("(%s) = 1", name))
		return true
	}},
	{"service.unknown-request-type", func(g *gWorkspace, r *vlib.RNG) bool {
		f := pickFile(g, r, func(f *gFile) bool { return len(f.Msgs) > 0 })
		if f == nil {
			return false
		}
		f.Tail += fmt.Sprintf("service BadSvc { rpc Call(NoSuchReq) returns (.%s); }\n", f.Msgs[0].Full)
		return true
	}},
	{"service.enum-as-response-type", func(g *gWorkspace, r *vlib.RNG) bool {
		f := pickFile(g, r, func(f *gFile) bool { return len(f.Msgs) > 0 })
		if f == nil {
			return false
		}
		f.Tail += fmt.Sprintf("enum RespE { RESPE_A = 0; }\nservice BadSvc { rpc Call(.%s) returns (RespE); }\n", f.Msgs[0].Full)
		return true
	}},
	{"service.duplicate-method", func(g *gWorkspace, r *vlib.RNG) bool {
		f := pickFile(g, r, func(f *gFile) bool { return len(f.Msgs) > 0 })
		if f == nil {
			return false
		}
		f.Tail += fmt.Sprintf("service DupSvc { rpc Call(.%[1]s) returns (.%[1]s); rpc Call(.%[1]s) returns (.%[1]s); }\n", f.Msgs[0].Full)
		return true
	}},
	{"syntax.unknown-syntax-name", func(g *gWorkspace, r *vlib.RNG) bool {
		f := pickFile(g, r, func(f *gFile) bool { return f.Syntax == "proto3" })
		if f == nil {
			return false
		}
		s := strings.Replace(f.render(), `syntax = "proto3";`, `syntax = "proto4";`, 1)
		f.Raw = &s
		return true
	}},
	{"syntax.missing-semicolon", func(g *gWorkspace, r *vlib.RNG) bool {
		f := pickFile(g, r, func(f *gFile) bool { return f.Pkg != "" })
		if f == nil {
			return false
		}
		s := strings.Replace(f.render(), "package "+f.Pkg+";", "package "+f.Pkg, 1)
		f.Raw = &s
		return true
	}},
	{"syntax.unbalanced-brace", func(g *gWorkspace, r *vlib.RNG) bool {
		f := pickFile(g, r, nil)
		if f == nil {
			return false
		}
		f.Tail += "message Unclosed {\n"
		return true
	}},
	{"syntax.stray-token", func(g *gWorkspace, r *vlib.RNG) bool {
		f := pickFile(g, r, nil)
		if f == nil {
			return false
		}
		f.Tail += vlib.Pick(r, []string{"}\n", "message { }\n", "message 3x {}\n", "= 5;\n", "message M_ok { int32 = 1; }\n", "\"dangling\n"})
		return true
	}},
	{"syntax.package-twice", func(g *gWorkspace, r *vlib.RNG) bool {
		f := pickFile(g, r, func(f *gFile) bool { return f.Pkg != "" })
		if f == nil {
			return false
		}
		f.Tail += "package other.pkg;\n"
		return true
	}},
	{"syntax.invalid-utf8-string-default", func(g *gWorkspace, r *vlib.RNG) bool {
		f, m := pickMsg(g, r, func(f *gFile, m *gMsg) bool { return f.Syntax == "proto2" })
		if m == nil {
			return false
		}
		addField(f, m, "string", "badutf", 7001, `default = "\377"`)
		return true
	}},
	{"message.nesting-too-deep", func(g *gWorkspace, r *vlib.RNG) bool {
		f := pickFile(g, r, nil)
		if f == nil {
			return false
		}
		var b strings.Builder
		for i := 0; i < 40; i++ {
			fmt.Fprintf(&b, "message Deep%d { ", i)
		}
		b.WriteString(strings.Repeat("} ", 40))
		f.Tail += b.String() + "\n"
		return true
	}},
	{"message-set.field-in-message-set", func(g *gWorkspace, r *vlib.RNG) bool {
		f := pickFile(g, r, func(f *gFile) bool { return f.Syntax == "proto2" })
		if f == nil {
			return false
		}
		f.Tail += "message MSet { option message_set_wire_format = true; optional int32 a = 1; extensions 4 to max; }\n"
		return true
	}},
}

func dropOpt(opts []string, prefixes ...string) []string {
	var out []string
	for _, o := range opts {
		drop := false
		for _, p := range prefixes {
			if strings.HasPrefix(o, p) {
				drop = true
			}
		}
		if !drop {
			out = append(out, o)
		}
	}
	return out
}

func (g *gWorkspace) schemaFile() *gFile {
	if g.OptFile < 0 {
		return nil
	}
	return g.Files[g.OptFile]
}

func (g *gWorkspace) imports(f, t *gFile) bool {
	for _, im := range f.Imports {
		if im.Path == t.Path {
			return true
		}
	}
	return false
}

// reaches reports whether `from` transitively imports `to`.
func (g *gWorkspace) reaches(from, to *gFile) bool {
	byPath := map[string]*gFile{}
	for _, x := range g.Files {
		byPath[x.Path] = x
	}
	seen := map[*gFile]bool{}
	var dfs func(x *gFile) bool
	dfs = func(x *gFile) bool {
		if x == to {
			return true
		}
		if seen[x] {
			return false
		}
		seen[x] = true
		for _, im := range x.Imports {
			if t := byPath[im.Path]; t != nil && dfs(t) {
				return true
			}
		}
		return false
	}
	for _, im := range from.Imports {
		if t := byPath[im.Path]; t != nil && dfs(t) {
			return true
		}
	}
	return false
}
