package exppipe

import (
	"context"
	"fmt"
	"sort"
	"strings"
	"testing"

	"google.golang.org/protobuf/proto"
	"google.golang.org/protobuf/reflect/protoreflect"
	"google.golang.org/protobuf/reflect/protoregistry"
	"google.golang.org/protobuf/types/descriptorpb"

	"github.com/bufbuild/protocompile/internal/verifmon/vlib"
	"github.com/bufbuild/protocompile/linker"
)

// C27 — the experimental compiler agrees with the stable compiler.
//
// Oracle: differential. Same accept/reject; when both accept, the
// FileDescriptorProto of every requested file is equal after (a) clearing
// source code info and (b) re-decoding both sides against the schema the
// stable result exposes (linker.ResolverFromFile), which removes exactly the
// known-vs-unknown storage difference of extension option values.
//
// A difference is classified BY WHAT DIFFERS (descriptor field path with
// names and indices stripped, kind, how), never by the input's name.

type c27Outcome struct {
	stableErr                 string
	stableAccepts, expAccepts bool
	compared                  int // files whose descriptors were compared
	diffs                     int
}

// c27Compare runs both compilers on one workspace and reports disagreements.
// rule is the input class for mutants ("" for valid inputs); expectReject is
// only used for class counting, never for the verdict.
func c27Compare(r *vlib.Run, id, rule string, w *workspace) c27Outcome {
	ctx := context.Background()
	var oc c27Outcome
	if _, ok := w.closure()["google/protobuf/descriptor.proto"]; ok && rule == "" {
		// input class: the workspace supplies its own descriptor.proto
		rule = "input overrides google/protobuf/descriptor.proto"
	}
	st := stableCompile(ctx, w, 0)
	env := newExpEnv(w.Files, 0)
	ex := env.runLink(ctx, w.Targets)

	oc.stableAccepts = st.Err == nil
	if st.Err != nil {
		oc.stableErr = st.Err.Error()
	}
	oc.expAccepts = !ex.rejected()

	if strings.HasPrefix(fmt.Sprint(st.Err), "PANIC") {
		r.Violation("c27.panic", "stable compiler: "+normMsg(st.Err.Error()), id, map[string]any{"workspace": w.closure(), "targets": w.Targets, "error": st.Err.Error()})
		return oc
	}
	if ex.Panic != "" {
		r.Violation("c27.panic", "experimental compiler: "+ex.Panic, id, map[string]any{"workspace": w.closure(), "targets": w.Targets})
		return oc
	}
	// An internal compiler error counts as a rejection (the convention of the
	// project's adapter). It is a C27 violation only through an accept/reject
	// mismatch; ICEs on inputs both compilers reject are recorded in the
	// evidence (class "observed-ice:…") but decide nothing here.
	iceSig := ""
	if ex.Report != nil {
		for i := range ex.Report.Diagnostics {
			if d := &ex.Report.Diagnostics[i]; d.Level() == 1 /* ICE */ {
				note := ""
				if len(d.Notes()) > 0 {
					note = "; " + normMsg(d.Notes()[0])
				}
				iceSig = "ICE " + normMsg(d.Message()) + note + " at " + vlib.PanicSite(strings.Join(d.Debug(), "\n"))
				r.Class("observed-ice: " + iceSig)
				r.Sample("observed-ice: "+iceSig, map[string]any{"case": id, "rule": rule, "targets": w.Targets, "notes": d.Notes()})
				break
			}
		}
	}

	if oc.stableAccepts != oc.expAccepts {
		var sig string
		wit := map[string]any{"workspace": w.closure(), "targets": w.Targets, "rule": rule}
		if oc.stableAccepts {
			sig = "stable accepts, experimental rejects: " + normMsg(ex.firstError())
			if iceSig != "" {
				sig = "stable accepts, experimental rejects: " + iceSig
			}
			wit["experimental_error"] = ex.firstError()
			wit["experimental_report"] = renderReport(ex.Report)
		} else {
			sig = "stable rejects, experimental accepts: " + normMsg(st.Err.Error())
			wit["stable_error"] = st.Err.Error()
		}
		if rule != "" {
			sig = "[" + rule + "] " + sig
		}
		r.Violation("c27.accept-mismatch", sig, id, wit)
		return oc
	}
	if !oc.stableAccepts {
		return oc
	}

	// both accept: compare descriptors of every requested file
	if len(ex.Files) != len(w.Targets) || len(st.Files) != len(w.Targets) {
		r.Violation("c27.result-shape", "number of result files differs from the number of requested files", id,
			map[string]any{"workspace": w.closure(), "targets": w.Targets, "stable": len(st.Files), "experimental": len(ex.Files)})
		return oc
	}
	for i, target := range w.Targets {
		sf := st.Files[i]
		ef := ex.Files[i]
		if ef == nil {
			r.Violation("c27.result-shape", "experimental compiler accepted but returned a nil file", id, map[string]any{"workspace": w.closure(), "target": target})
			continue
		}
		res, ok := sf.(linker.Result)
		if !ok {
			r.Inconclusive("stable result for a source file is not a linker.Result")
			continue
		}
		resolver := linker.ResolverFromFile(sf)
		sfd, err := normalizeFDP(res.FileDescriptorProto(), resolver)
		if err != nil {
			r.Inconclusive("cannot normalise the stable descriptor: " + err.Error())
			continue
		}
		raw, err := expDescriptor(ef)
		if err != nil {
			r.Violation("c27.descriptor-generation", "fdp.DescriptorProtoBytes fails on an accepted file: "+normMsg(err.Error()), id,
				map[string]any{"workspace": w.closure(), "target": target, "error": err.Error()})
			continue
		}
		efd, err := normalizeFDP(raw, resolver)
		if err != nil {
			r.Violation("c27.descriptor-generation", "experimental descriptor bytes do not decode against the compiled schema: "+normMsg(err.Error()), id,
				map[string]any{"workspace": w.closure(), "target": target, "error": err.Error()})
			continue
		}
		oc.compared++
		diffs := diffFDP(sfd, efd, resolver)
		if len(diffs) == 0 {
			continue
		}
		oc.diffs += len(diffs)
		// one violation per classification, each with the concrete instances
		byClass := map[string][]fdpDiff{}
		for _, d := range diffs {
			byClass[d.Class] = append(byClass[d.Class], d)
		}
		classes := sortedKeys(byClass)
		for _, c := range classes {
			inst := byClass[c]
			if len(inst) > 6 {
				inst = inst[:6]
			}
			r.Violation("c27.descriptor-diff", c, id+"#"+target, map[string]any{
				"workspace": w.closure(), "targets": w.Targets, "target": target, "rule": rule,
				"instances": inst, "instance_count": len(byClass[c]), "all_classes_in_this_file": classes,
			})
		}
	}
	return oc
}

func TestC27(t *testing.T) {
	r := vlib.Start(t, "C27")
	defer r.Finish()
	r.Extra("rule", "cases: (1) every *.proto of internal/testdata (three separate import roots) and of protobuf-go v1.36.11 as a single requested file with its imports; "+
		"(2) generated multi-file workspaces (proto2/proto3/editions, defaults of every scalar kind, aliased enums, maps, oneofs, groups, extensions, custom options, services) requested together; "+
		"(3) rule-breaking mutants of (2), one catalogued rule each. Both compilers get the same file map and the same embedded WKT sources. "+
		"distinct = distinct (file-set content, targets); non-trivial = at least one side accepted or rejected for a reason other than a missing requested file")
	r.Extra("assumptions", []string{
		"experimental accept/reject follows internal/testing/dualcompiler/new_adapter.go: fatal result or any Error/ICE diagnostic = reject; queries.Link is used as the complete pipeline",
		"re-decoding both descriptors with linker.ResolverFromFile(stable result) only changes known-vs-unknown storage (protobuf-go unmarshal keeps undecodable values as unknown bytes)",
		"unknown fields are compared after ordering records by field number",
	})

	if why := c27SelfTest(); why != "" {
		r.Inconclusive("descriptor comparison self-test failed: " + why)
		return
	}
	roots, err := corpusRoots()
	if err != nil {
		r.Inconclusive("corpus not readable: " + err.Error())
		return
	}
	type ccase struct {
		root *workspace
		path string
	}
	var cases []ccase
	for _, root := range roots {
		for _, p := range sortedKeys(root.Files) {
			cases = append(cases, ccase{root, p})
		}
	}
	r.Extra("corpus_files", len(cases))
	r.Par(len(cases), func(i int) {
		c := cases[i]
		id := "corpus/" + c.root.Name + "/" + c.path
		if !r.Want(id) {
			return
		}
		w := &workspace{Name: c.root.Name, Files: c.root.Files, Targets: []string{c.path}}
		oc := c27Compare(r, id, "", w)
		r.Eval(id + "\x00" + fmt.Sprint(vlib.Hash64(c.root.Files[c.path])))
		r.Class("corpus:" + verdictClass(oc))
		if oc.compared > 0 && oc.diffs == 0 {
			r.Sample("corpus-equal", id)
		}
	})

	c27Generated(r)
}

func verdictClass(oc c27Outcome) string {
	switch {
	case oc.stableAccepts && oc.expAccepts && oc.diffs == 0:
		return "both-accept-equal"
	case oc.stableAccepts && oc.expAccepts:
		return "both-accept-different"
	case !oc.stableAccepts && !oc.expAccepts:
		return "both-reject"
	case oc.stableAccepts:
		return "stable-accepts-exp-rejects"
	default:
		return "stable-rejects-exp-accepts"
	}
}

func sortedStrings(xs []string) []string {
	out := append([]string(nil), xs...)
	sort.Strings(out)
	return out
}

// c27SelfTest checks, on one fixed workspace with custom options, that the
// normalise+diff machinery (a) is silent on the stable descriptor against
// its own wire form with all extensions left as unknown bytes, and (b) sees
// a one-bit change inside such an unknown extension value, a renamed
// message and a dropped field.
func c27SelfTest() string {
	w := &workspace{Files: map[string]string{
		"o.proto": "syntax = \"proto2\";\npackage st;\nimport \"google/protobuf/descriptor.proto\";\nmessage O { optional int32 a = 1; repeated string s = 2; }\nextend google.protobuf.MessageOptions { optional O mo = 50001; optional int32 mi = 50002; }\n",
		"u.proto": "syntax = \"proto2\";\npackage st;\nimport \"o.proto\";\nmessage U { option (mo) = { a: 7 s: \"x\" s: \"y\" }; option (mi) = 3; optional int32 f = 1; optional string g = 2; }\n",
	}, Targets: []string{"u.proto"}}
	st := stableCompile(context.Background(), w, 1)
	if st.Err != nil {
		return "fixed workspace rejected: " + st.Err.Error()
	}
	res, ok := st.Files[0].(linker.Result)
	if !ok {
		return "no linker.Result"
	}
	resolver := linker.ResolverFromFile(st.Files[0])
	want, err := normalizeFDP(res.FileDescriptorProto(), resolver)
	if err != nil {
		return err.Error()
	}
	// wire form decoded WITHOUT any resolver: extensions become unknown fields
	raw, err := proto.MarshalOptions{Deterministic: true}.Marshal(res.FileDescriptorProto())
	if err != nil {
		return err.Error()
	}
	unk := new(descriptorpb.FileDescriptorProto)
	if err := (proto.UnmarshalOptions{Resolver: emptyTypes{}}).Unmarshal(raw, unk); err != nil {
		return err.Error()
	}
	if len(unk.GetMessageType()[0].GetOptions().ProtoReflect().GetUnknown()) == 0 {
		return "extensions were not left unknown"
	}
	got, err := normalizeFDP(unk, resolver)
	if err != nil {
		return err.Error()
	}
	if ds := diffFDP(want, got, resolver); len(ds) != 0 {
		return fmt.Sprintf("known-vs-unknown storage is reported as a difference: %+v", ds[0])
	}
	// (b1) flip the value 7 -> 6 inside the unknown bytes
	mut := proto.Clone(unk).(*descriptorpb.FileDescriptorProto)
	ub := append([]byte(nil), mut.GetMessageType()[0].GetOptions().ProtoReflect().GetUnknown()...)
	flipped := false
	for i := 0; i+1 < len(ub); i++ {
		if ub[i] == 0x08 && ub[i+1] == 0x07 { // field 1 varint 7 inside O
			ub[i+1] = 0x06
			flipped = true
			break
		}
	}
	if !flipped {
		return "could not locate the option value in the unknown bytes"
	}
	mut.GetMessageType()[0].GetOptions().ProtoReflect().SetUnknown(ub)
	g2, err := normalizeFDP(mut, resolver)
	if err != nil {
		return err.Error()
	}
	if ds := diffFDP(want, g2, resolver); len(ds) != 1 || !strings.Contains(ds[0].Class, "MessageOptions.(ext).<custom-field> value") {
		return fmt.Sprintf("a changed option value is not reported as exactly one custom-field difference: %+v", ds)
	}
	// (b2) renamed message, dropped field
	mut = proto.Clone(unk).(*descriptorpb.FileDescriptorProto)
	mut.GetMessageType()[0].Name = proto.String("V")
	mut.GetMessageType()[0].Field = mut.GetMessageType()[0].Field[:1]
	g3, err := normalizeFDP(mut, resolver)
	if err != nil {
		return err.Error()
	}
	if ds := diffFDP(want, g3, resolver); len(ds) != 2 {
		return fmt.Sprintf("rename + dropped field give %d differences, want 2", len(ds))
	}
	return ""
}

// emptyTypes resolves nothing: every extension stays in the unknown fields.
type emptyTypes struct{}

func (emptyTypes) FindMessageByName(protoreflect.FullName) (protoreflect.MessageType, error) {
	return nil, protoregistry.NotFound
}
func (emptyTypes) FindMessageByURL(string) (protoreflect.MessageType, error) {
	return nil, protoregistry.NotFound
}
func (emptyTypes) FindExtensionByName(protoreflect.FullName) (protoreflect.ExtensionType, error) {
	return nil, protoregistry.NotFound
}
func (emptyTypes) FindExtensionByNumber(protoreflect.FullName, protoreflect.FieldNumber) (protoreflect.ExtensionType, error) {
	return nil, protoregistry.NotFound
}
