package exppipe

import (
	"context"
	"errors"
	"fmt"
	"io"
	"io/fs"
	"os"
	"path/filepath"
	"regexp"
	"sort"
	"strings"
	"sync/atomic"

	"google.golang.org/protobuf/proto"
	"google.golang.org/protobuf/types/descriptorpb"

	"github.com/bufbuild/protocompile"
	"github.com/bufbuild/protocompile/experimental/fdp"
	"github.com/bufbuild/protocompile/experimental/incremental"
	"github.com/bufbuild/protocompile/experimental/incremental/queries"
	"github.com/bufbuild/protocompile/experimental/ir"
	"github.com/bufbuild/protocompile/experimental/report"
	"github.com/bufbuild/protocompile/experimental/source"
	"github.com/bufbuild/protocompile/internal/verifmon/vlib"
	"github.com/bufbuild/protocompile/linker"
	"github.com/bufbuild/protocompile/reporter"
	"github.com/bufbuild/protocompile/wellknownimports"
)

// ---------------------------------------------------------------------------
// Environment
// ---------------------------------------------------------------------------

func repoRoot() string {
	if v := os.Getenv("VERIF_REPO"); v != "" {
		return v
	}
	return "/repo"
}

func modCache() string {
	if v := os.Getenv("GOMODCACHE"); v != "" {
		return v
	}
	return "/root/go/pkg/mod"
}

// ---------------------------------------------------------------------------
// Workspaces: a set of source files plus the files asked for ("targets")
// ---------------------------------------------------------------------------

type workspace struct {
	Name    string            `json:"name"`
	Files   map[string]string `json:"files"`
	Targets []string          `json:"targets"`
}

func (w *workspace) clone() *workspace {
	c := &workspace{Name: w.Name, Files: make(map[string]string, len(w.Files)), Targets: append([]string(nil), w.Targets...)}
	for k, v := range w.Files {
		c.Files[k] = v
	}
	return c
}

// contentKey is a content identity of a workspace (for distinct counting).
func (w *workspace) contentKey() string {
	paths := make([]string, 0, len(w.Files))
	for p := range w.Files {
		paths = append(paths, p)
	}
	sort.Strings(paths)
	var b strings.Builder
	for _, p := range paths {
		fmt.Fprintf(&b, "%s\x00%016x\x00", p, vlib.Hash64(w.Files[p]))
	}
	b.WriteString(strings.Join(w.Targets, ","))
	return b.String()
}

// closure returns the subset of files reachable from the targets through
// import statements (textually scanned); used only to make witnesses small.
var importRe = regexp.MustCompile(`(?m)^\s*import\s+(?:public\s+|weak\s+|option\s+)?"([^"]+)"`)

func (w *workspace) closure() map[string]string {
	out := map[string]string{}
	var visit func(p string)
	visit = func(p string) {
		if _, ok := out[p]; ok {
			return
		}
		t, ok := w.Files[p]
		if !ok {
			return
		}
		out[p] = t
		for _, m := range importRe.FindAllStringSubmatch(t, -1) {
			visit(m[1])
		}
	}
	for _, t := range w.Targets {
		visit(t)
	}
	return out
}

// ---------------------------------------------------------------------------
// The stable compiler
// ---------------------------------------------------------------------------

type stableOut struct {
	Files    linker.Files
	Err      error
	Warnings []string
}

// stableCompile compiles the targets of a workspace with the stable compiler.
// User files take precedence; the well-known imports are provided as SOURCE
// from the same embedded file system the experimental compiler's
// source.WKTs() opener reads, so both compilers see identical inputs.
func stableCompile(ctx context.Context, w *workspace, par int) stableOut {
	var out stableOut
	res := wellknownimports.WithStandardImports(&protocompile.SourceResolver{
		Accessor: func(path string) (io.ReadCloser, error) {
			t, ok := w.Files[path]
			if !ok {
				return nil, fs.ErrNotExist
			}
			return io.NopCloser(strings.NewReader(t)), nil
		},
	})
	c := protocompile.Compiler{
		Resolver:       res,
		MaxParallelism: par,
		Reporter: reporter.NewReporter(
			func(err reporter.ErrorWithPos) error { return err },
			func(err reporter.ErrorWithPos) { out.Warnings = append(out.Warnings, err.Error()) },
		),
	}
	pv, stack := vlib.Try(func() { out.Files, out.Err = c.Compile(ctx, w.Targets...) })
	if pv != nil {
		out.Err = fmt.Errorf("PANIC in stable compiler: %v at %s", pv, vlib.PanicSite(stack))
	}
	return out
}

// ---------------------------------------------------------------------------
// The experimental compiler
// ---------------------------------------------------------------------------

// memOpener is a comparable, mutable in-memory opener built on the project's
// own source.Map.
type expEnv struct {
	Map     source.Map
	Opener  source.Opener
	Session *ir.Session
	Exec    *incremental.Executor
	// one Workspace object per target list: queries.Link's key contains the
	// Workspace by identity, so a long-lived client must reuse it to be cached
	ws    source.Workspace
	wsKey string
	hook  *hookOpener
	// cancelAt > 0: the next step first runs a compilation that is cancelled when the cancelAt-th file is opened
	cancelAt int
}

// hookOpener is the opener of an environment; a test can have a function called on every Open (used to cancel a
// compilation half-way). The object stays the same, so query keys (which contain the opener) stay the same.
type hookOpener struct {
	inner  source.Opener
	onOpen atomic.Pointer[func(path string)]
}

func (h *hookOpener) Open(path string) (*source.File, error) {
	if f := h.onOpen.Load(); f != nil {
		(*f)(path)
	}
	return h.inner.Open(path)
}

func newExpEnv(files map[string]string, par int) *expEnv {
	m := source.NewMap(nil)
	for p, t := range files {
		m.Add(p, t)
	}
	e := &expEnv{Map: m, Session: new(ir.Session)}
	// user files first, exactly like experimental/ir's own tests; built-in
	// WKT sources as fallback.
	e.hook = &hookOpener{inner: &source.Openers{m, source.WKTs()}}
	e.Opener = e.hook
	if par > 0 {
		e.Exec = incremental.New(incremental.WithParallelism(int64(par)))
	} else {
		e.Exec = incremental.New()
	}
	return e
}

type expOut struct {
	Files  []*ir.File // index-aligned with the targets; nil when missing
	Report *report.Report
	Fatal  error // Fatal of the root query / executor error
	Panic  string
}

// rejected reports whether the experimental compiler refused the inputs, with
// the convention of internal/testing/dualcompiler/new_adapter.go: a fatal
// result, or any diagnostic of level Error or ICE.
func (o *expOut) rejected() bool {
	if o.Panic != "" || o.Fatal != nil {
		return true
	}
	if o.Report != nil {
		for i := range o.Report.Diagnostics {
			l := o.Report.Diagnostics[i].Level()
			if l == report.Error || l == report.ICE {
				return true
			}
		}
	}
	return false
}

func (o *expOut) firstError() string {
	if o.Panic != "" {
		return "PANIC " + o.Panic
	}
	if o.Report != nil {
		for i := range o.Report.Diagnostics {
			d := &o.Report.Diagnostics[i]
			if d.Level() == report.Error || d.Level() == report.ICE {
				sn := snapDiag(d, false)
				ann := ""
				if len(sn.Annotations) > 0 && sn.Annotations[0].Message != "" {
					ann = " {" + sn.Annotations[0].Message + "}"
				}
				return fmt.Sprintf("[%s] %s%s", d.Tag(), d.Message(), ann)
			}
		}
	}
	if o.Fatal != nil {
		return "fatal: " + o.Fatal.Error()
	}
	return ""
}

// runLink runs queries.Link over the targets (the complete pipeline: parse,
// lower, cross-file symbol and extension-number checks).
func (e *expEnv) runLink(ctx context.Context, targets []string) expOut {
	var out expOut
	if k := strings.Join(targets, "\x00"); e.ws == nil || e.wsKey != k {
		e.ws, e.wsKey = source.NewWorkspace(append([]string(nil), targets...)...), k
	}
	pv, stack := vlib.Try(func() {
		res, rep, err := incremental.Run(ctx, e.Exec, queries.Link{
			Opener:    e.Opener,
			Session:   e.Session,
			Workspace: e.ws,
		})
		out.Report = rep
		if err != nil {
			out.Fatal = err
			return
		}
		if res[0].Fatal != nil {
			out.Fatal = res[0].Fatal
		}
		out.Files = res[0].Value
	})
	if pv != nil {
		out.Panic = fmt.Sprintf("%v at %s", pv, vlib.PanicSite(stack))
	}
	return out
}

// runIR runs one queries.IR per target (the shape used by the project's
// dual-compiler adapter).
func (e *expEnv) runIR(ctx context.Context, targets []string) expOut {
	var out expOut
	pv, stack := vlib.Try(func() {
		qs := make([]incremental.Query[*ir.File], len(targets))
		for i, p := range targets {
			qs[i] = queries.IR{Opener: e.Opener, Session: e.Session, Path: p}
		}
		res, rep, err := incremental.Run(ctx, e.Exec, qs...)
		out.Report = rep
		if err != nil {
			out.Fatal = err
			return
		}
		for _, r := range res {
			if r.Fatal != nil && out.Fatal == nil {
				out.Fatal = r.Fatal
			}
			out.Files = append(out.Files, r.Value)
		}
	})
	if pv != nil {
		out.Panic = fmt.Sprintf("%v at %s", pv, vlib.PanicSite(stack))
	}
	return out
}

// expDescriptor serialises an IR file the way the project's adapter does.
func expDescriptorBytes(f *ir.File) (b []byte, err error) {
	pv, stack := vlib.Try(func() {
		b, err = fdp.DescriptorProtoBytes(f, fdp.IncludeSourceCodeInfo(false))
	})
	if pv != nil {
		return nil, fmt.Errorf("PANIC in fdp.DescriptorProtoBytes: %v at %s", pv, vlib.PanicSite(stack))
	}
	return b, err
}

func expDescriptor(f *ir.File) (*descriptorpb.FileDescriptorProto, error) {
	b, err := expDescriptorBytes(f)
	if err != nil {
		return nil, err
	}
	fd := new(descriptorpb.FileDescriptorProto)
	if err := proto.Unmarshal(b, fd); err != nil {
		return nil, err
	}
	return fd, nil
}

// ---------------------------------------------------------------------------
// Corpus
// ---------------------------------------------------------------------------

// loadTree reads every *.proto under root, keyed by the path relative to root.
func loadTree(root string, skip func(rel string) bool) (map[string]string, error) {
	out := map[string]string{}
	err := filepath.WalkDir(root, func(p string, d fs.DirEntry, err error) error {
		if err != nil {
			return err
		}
		if d.IsDir() || !strings.HasSuffix(p, ".proto") {
			return nil
		}
		rel, _ := filepath.Rel(root, p)
		rel = filepath.ToSlash(rel)
		if skip != nil && skip(rel) {
			return nil
		}
		b, err := os.ReadFile(p)
		if err != nil {
			return err
		}
		out[rel] = string(b)
		return nil
	})
	return out, err
}

// corpusRoots returns the corpus as separate import roots (one file map per
// root, so that the test override of descriptor.proto under
// internal/testdata/options never shadows the real one for other roots).
func corpusRoots() ([]*workspace, error) {
	var out []*workspace
	td := filepath.Join(repoRoot(), "internal", "testdata")
	add := func(name, root string, skip func(string) bool) error {
		m, err := loadTree(root, skip)
		if err != nil {
			return err
		}
		if len(m) == 0 {
			return errors.New("corpus root " + root + " holds no .proto file")
		}
		out = append(out, &workspace{Name: name, Files: m})
		return nil
	}
	// root 1: internal/testdata itself, without the sub-roots
	if err := add("testdata", td, func(rel string) bool {
		return strings.HasPrefix(rel, "more/") || strings.HasPrefix(rel, "options/")
	}); err != nil {
		return nil, err
	}
	if err := add("testdata-more", filepath.Join(td, "more"), nil); err != nil {
		return nil, err
	}
	// root 3: options/ WITH its override of google/protobuf/descriptor.proto
	if err := add("testdata-options", filepath.Join(td, "options"), nil); err != nil {
		return nil, err
	}
	// root 4: protobuf-go module (import paths are relative to the module root);
	// src/google/protobuf/go_features.proto is a WKT and is left to the built-ins.
	pg := filepath.Join(modCache(), "google.golang.org", "protobuf@v1.36.11")
	if err := add("protobuf-go", pg, func(rel string) bool { return strings.HasPrefix(rel, "src/") }); err != nil {
		return nil, err
	}
	return out, nil
}

func sortedKeys[V any](m map[string]V) []string {
	ks := make([]string, 0, len(m))
	for k := range m {
		ks = append(ks, k)
	}
	sort.Strings(ks)
	return ks
}

// normMsg turns a diagnostic/error message into a class: quoted names,
// numbers and positions are replaced by placeholders.
var (
	reQuoted  = regexp.MustCompile("`[^`]*`|\"[^\"]*\"|'[^']*'")
	reDotted  = regexp.MustCompile(`\.?\b[A-Za-z_][A-Za-z0-9_]*(\.[A-Za-z_][A-Za-z0-9_]*)+\b`)
	reDigitID = regexp.MustCompile(`\b[A-Za-z_]+[0-9][A-Za-z0-9_]*\b`)
	reSubject = regexp.MustCompile(`^(field|extension|message|enum|enum value|service|method|oneof|file|option|syntax error) [^ :]+:`)
	reNumber  = regexp.MustCompile(`-?\b\d+(\.\d+)?\b`)
	rePos     = regexp.MustCompile(`^[^ ]+\.proto:\d+:\d+: `)
)

func normMsg(s string) string {
	s = rePos.ReplaceAllString(s, "")
	s = reQuoted.ReplaceAllString(s, "«x»")
	s = reSubject.ReplaceAllString(s, "$1 «x»:")
	s = reDotted.ReplaceAllString(s, "«x»")
	s = reDigitID.ReplaceAllString(s, "«x»")
	s = reNumber.ReplaceAllString(s, "N")
	if len(s) > 160 {
		s = s[:160]
	}
	return s
}
