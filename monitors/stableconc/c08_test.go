package stableconc

import (
	"context"
	"errors"
	"fmt"
	"runtime"
	"sync/atomic"
	"testing"

	"google.golang.org/protobuf/types/descriptorpb"

	"github.com/bufbuild/protocompile"
	"github.com/bufbuild/protocompile/internal/verifmon/gen"
	"github.com/bufbuild/protocompile/internal/verifmon/vlib"
	"github.com/bufbuild/protocompile/reporter"
)

// C08 — error reporter contract.

// monReporter is deliberately NOT thread-safe (plain counters): if the
// compiler ever calls it concurrently the race detector convicts the calls
// even when the overlap is too short to be seen by the in-flight counter.
type monReporter struct {
	inflight atomic.Int32
	overlap  atomic.Int32

	errCalls   int // plain on purpose
	warnCalls  int // plain on purpose
	abortAt    int // 0 = never
	abortErr   error
	aborted    bool
	afterAbort int
	errs       []string
}

func (m *monReporter) enter() {
	if m.inflight.Add(1) > 1 {
		m.overlap.Add(1)
	}
	// widen the window in which a second, concurrent callback would be seen (no clock involved)
	for i := 0; i < 3; i++ {
		runtime.Gosched()
		if m.inflight.Load() > 1 {
			m.overlap.Add(1)
		}
	}
}
func (m *monReporter) exit() { m.inflight.Add(-1) }

func (m *monReporter) Error(e reporter.ErrorWithPos) error {
	m.enter()
	defer m.exit()
	m.errCalls++
	m.errs = append(m.errs, e.Error())
	if m.aborted {
		m.afterAbort++
		return m.abortErr
	}
	if m.abortAt > 0 && m.errCalls == m.abortAt {
		m.aborted = true
		return m.abortErr
	}
	return nil
}

func (m *monReporter) Warning(reporter.ErrorWithPos) {
	m.enter()
	defer m.exit()
	m.warnCalls++
}

func badSnippet(syntax string, k, kind int) string {
	label := "optional "
	if syntax != "proto2" {
		label = ""
	}
	switch kind % 4 {
	case 0:
		return fmt.Sprintf("message ZzBad%d { reserved 5 to 1; }\n", k)
	case 1:
		return fmt.Sprintf("enum ZzEmpty%d { }\n", k)
	case 2:
		return fmt.Sprintf("message ZzUnk%d { %szz.no.Such f = 1; }\n", k, label)
	default:
		return fmt.Sprintf("message ZzDup%d { %sint32 a = 1; %sint32 b = 1; }\n", k, label, label)
	}
}

func syntaxOfFile(fd *descriptorpb.FileDescriptorProto) string {
	switch fd.GetSyntax() {
	case "proto3", "editions":
		return fd.GetSyntax()
	}
	return "proto2"
}

func TestC08(t *testing.T) {
	r := vlib.Start(t, "C08")
	defer r.Finish()
	p := vlib.InstallPerturber()
	r.Extra("rule", "generated multi-file sets: valid ones (many produce warnings: unused imports) and invalid ones with several independent errors planted in several files "+
		"(parse-stage and link-stage); reporters: never abort, and abort at the k-th error for every k from 1 to (#errors of the never-abort run)+1; MaxParallelism {1,4,16}; schedule perturbation; "+
		"the reporter itself counts with plain (unsynchronised) variables so the race detector convicts any concurrent call. non-trivial = set with >=1 reported error or warning; distinct = (set, policy, parallelism)")
	r.Extra("assumptions", []string{"the contract is checked at the reporter callback boundary and at Compile's return value"})
	n := r.N(80, 1500)
	r.Par(n, func(i int) {
		id := fmt.Sprintf("g/%d", i)
		if !r.Want(id) {
			return
		}
		rng := r.Rng(id)
		cfg := gen.StdConfig(rng, i)
		cfg.MaxFiles = 1 + i%5
		if i%8 == 3 {
			cfg.CustomOptions = false // nothing imports descriptor.proto explicitly: it is only an implicit dependency
		}
		m, err := gen.GenModel(rng, cfg)
		if err != nil {
			r.Class("g:model-not-decided")
			return
		}
		src, err := m.Sources(nil)
		if err != nil {
			r.Inconclusive("render: " + err.Error())
			return
		}
		names := m.Names()
		planted := 0
		switch i % 8 {
		case 1, 6:
			// wide: several more files that depend on nothing and each draw warnings (unused imports), so that
			// warnings of different files are produced at the same time
			k := rng.Range(3, 8)
			for j := 0; j < k; j++ {
				nme := fmt.Sprintf("wide%d.proto", j)
				wk := append([]string(nil), gen.WellKnownImports...)
				vlib.Shuffle(rng, wk)
				src[nme] = gen.InjectImports(fmt.Sprintf("syntax = \"proto3\";\npackage wide%d;\nmessage W%d { int32 x = 1; }\n", j, j), wk[:rng.Range(1, 4)])
				names = append(names, nme)
			}
			r.Class("shape:wide-with-warnings")
		case 3:
			// an overridden descriptor.proto that itself has an error: it is compiled as an implicit dependency of every file
			ds, err := gen.DescriptorProtoSource()
			if err != nil {
				r.Inconclusive("descriptor.proto source: " + err.Error())
				return
			}
			src["google/protobuf/descriptor.proto"] = ds + badSnippet("proto2", 990+i%7, rng.Intn(4))
			planted++
			r.Class("shape:erroneous-descriptor.proto-override")
		}
		switch i % 8 {
		case 5:
			// a requested file that cannot be resolved (never shown to the reporter) next to files with reported errors
			src["needs_missing.proto"] = "syntax = \"proto3\";\npackage nm;\nimport \"does/not/exist.proto\";\nmessage NM { int32 x = 1; }\n"
			if rng.Bool() {
				names = append([]string{"needs_missing.proto"}, names...)
			} else {
				names = append(names, "needs_missing.proto")
			}
			if rng.Bool() {
				names = append(names, "not_there_at_all.proto")
			}
			planted++ // the compilation fails in any case (a failure that is not shown to the reporter)
			r.Class("shape:unresolvable-file-among-the-requested")
		case 7:
			// an import cycle between two files (reported through the root handler) next to other reported errors
			src["cyc_a.proto"] = "syntax = \"proto3\";\npackage cyc;\nimport \"cyc_b.proto\";\nmessage CA { int32 x = 1; }\n"
			src["cyc_b.proto"] = "syntax = \"proto3\";\npackage cyc;\nimport \"cyc_a.proto\";\nmessage CB { int32 x = 1; }\n"
			names = append(names, "cyc_a.proto")
			if rng.Bool() {
				names = append(names, "cyc_b.proto")
			}
			planted++
			r.Class("shape:import-cycle-among-the-requested")
		}
		if i%4 != 0 && i%8 != 3 {
			for k, f := range m.Files {
				if f.GetName() == "opts/options.proto" || !rng.Chance(0.7) {
					continue
				}
				cnt := rng.Range(1, 3)
				for c := 0; c < cnt; c++ {
					src[f.GetName()] += badSnippet(syntaxOfFile(f), k*10+c, rng.Intn(4))
					planted++
				}
			}
		}
		run := func(abortAt, par int, seed uint64) (*monReporter, error, bool) {
			mr := &monReporter{abortAt: abortAt, abortErr: fmt.Errorf("abort-%d-%d", i, abortAt)}
			p.SetSeed(seed, []string{"link.start", "link.afterLink", "result.fail", "asFile.afterRelease", ""}[int(seed%5)])
			c := protocompile.Compiler{
				Resolver:       protocompile.WithStandardImports(&protocompile.SourceResolver{Accessor: protocompile.SourceAccessorFromMap(src)}),
				MaxParallelism: par,
				Reporter:       mr,
			}
			var cerr error
			res := runCompile(func() *gen.Outcome {
				_, cerr = c.Compile(context.Background(), names...)
				return &gen.Outcome{Err: cerr}
			})
			return mr, cerr, res.returned
		}
		for _, par := range []int{1, 4, 16} {
			base, berr, ok := run(0, par, r.Seed+uint64(i*17+par))
			if !ok {
				r.Inconclusive("compile did not return: " + id)
				return
			}
			nErr := base.errCalls
			key := ""
			if nErr+base.warnCalls > 0 {
				key = fmt.Sprintf("%s|never|%d", gen.SrcKey(src), par)
			}
			r.Eval(key)
			w := map[string]any{"sources": src, "parallelism": par, "policy": "never abort", "errors_reported": base.errs, "warnings": base.warnCalls, "returned": fmt.Sprint(berr)}
			if base.overlap.Load() > 0 {
				r.Violation("c08.concurrent-callback", "reporter entered while another callback was in flight", id, w)
			}
			switch {
			case nErr > 0 && berr != reporter.ErrInvalidSource:
				r.Violation("c08.wrong-final-error", "never-abort reporter with errors: Compile did not return ErrInvalidSource", id, w)
			case nErr == 0 && berr != nil:
				// the property does not say that every failure is reported; it says warnings never cause one
				if base.warnCalls > 0 && planted == 0 {
					r.Violation("c08.warnings-fail-compilation", gen.ClassifyErr(berr.Error()), id, w)
				} else {
					r.Class("observed:failure-without-reported-error")
				}
			case nErr > 0 && berr == nil:
				r.Violation("c08.success-despite-reported-error", "Compile returned nil although errors were reported", id, w)
			}
			if nErr == 0 {
				r.Class("never-abort:success")
				if base.warnCalls > 0 {
					r.Class("never-abort:success-with-warnings")
				}
				continue
			}
			r.Class("never-abort:invalid")
			maxK := nErr + 1
			if r.Quick() && maxK > 4 {
				maxK = 4
			}
			for k := 1; k <= maxK; k++ {
				kid := fmt.Sprintf("%s/p%d/k%d", id, par, k)
				if !r.Want(kid) {
					continue
				}
				mr, cerr, ok := run(k, par, r.Seed*7+uint64(i*131+par*11+k))
				if !ok {
					r.Inconclusive("compile did not return: " + kid)
					continue
				}
				r.Eval(fmt.Sprintf("%s|abort%d|%d", gen.SrcKey(src), k, par))
				w := map[string]any{"sources": src, "parallelism": par, "policy": fmt.Sprintf("abort at error %d", k), "errors_reported": mr.errs, "returned": fmt.Sprint(cerr)}
				if mr.overlap.Load() > 0 {
					r.Violation("c08.concurrent-callback", "reporter entered while another callback was in flight", kid, w)
				}
				if mr.aborted {
					if mr.afterAbort > 0 {
						r.Violation("c08.error-after-abort", "an error reached the reporter after it had returned an error", kid, w)
					}
					if !errors.Is(cerr, mr.abortErr) || cerr != mr.abortErr {
						r.Violation("c08.wrong-final-error", "Compile did not return the error the reporter returned", kid, w)
					}
					r.Class("abort:checked")
				} else {
					// fewer errors arrived than k: behaves like never-abort
					if mr.errCalls > 0 && cerr != reporter.ErrInvalidSource {
						r.Violation("c08.wrong-final-error", "reporter never aborted, errors were reported, but Compile did not return ErrInvalidSource", kid, w)
					}
					if mr.errCalls > 0 && cerr == nil {
						r.Violation("c08.success-despite-reported-error", "Compile returned nil although errors were reported", kid, w)
					}
					r.Class("abort:never-triggered")
				}
			}
		}
		if i == 1 {
			r.Sample("set-with-planted-errors", map[string]any{"files": names, "planted": planted})
		}
	})
	r.Extra("hook_sites_reached", p.SiteCounts())
}
