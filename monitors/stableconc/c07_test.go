package stableconc

import (
	"context"
	"errors"
	"fmt"
	"io"
	"sort"
	"strings"
	"sync"
	"sync/atomic"
	"testing"
	"time"

	"github.com/bufbuild/protocompile"
	"github.com/bufbuild/protocompile/internal/verifmon/gen"
	"github.com/bufbuild/protocompile/internal/verifmon/vlib"
)

// C07 — faults and cancellation are contained.

type fault struct {
	Kind string // "ok", "error", "panic", "short-read", "accessor-error", "accessor-panic"
	At   int    // short-read: fail after this many bytes
}

type faultPlan struct {
	Files       map[string]fault
	CancelAfter int // cancel the context inside the k-th resolver call (0 = never)
}

func (p faultPlan) String() string {
	var ks []string
	for k, f := range p.Files {
		if f.Kind != "ok" {
			ks = append(ks, fmt.Sprintf("%s=%s@%d", k, f.Kind, f.At))
		}
	}
	sort.Strings(ks)
	return fmt.Sprintf("%v cancelAfter=%d", ks, p.CancelAfter)
}

type failingReader struct {
	data   string
	pos    int
	failAt int
	err    error
	closed *atomic.Int32
}

func (f *failingReader) Read(b []byte) (int, error) {
	if f.pos >= f.failAt {
		return 0, f.err
	}
	n := copy(b, f.data[f.pos:min(len(f.data), f.failAt)])
	if n > 7 {
		n = 7 // small reads, so the failure lands mid-file
	}
	f.pos += n
	if n == 0 {
		return 0, f.err
	}
	return n, nil
}

func (f *failingReader) Close() error { f.closed.Add(1); return nil }

type faultWorld struct {
	src     map[string]string
	plan    faultPlan
	calls   atomic.Int32
	cancel  context.CancelFunc
	errs    map[string]error
	panics  map[string]any
	handed  atomic.Int32
	closed  atomic.Int32
	useAcc  bool
	inCalls atomic.Int32 // resolver/accessor calls in flight
	fired   atomic.Int32 // faults on files that do not exist (the descriptor.proto probe) that actually fired
}

type panicValue struct{ file string }

func (w *faultWorld) resolver() protocompile.Resolver {
	find := func(name string) (protocompile.SearchResult, error) {
		w.inCalls.Add(1)
		defer w.inCalls.Add(-1)
		n := int(w.calls.Add(1))
		if w.plan.CancelAfter > 0 && n == w.plan.CancelAfter {
			w.cancel()
		}
		s, ok := w.src[name]
		f := w.plan.Files[name]
		if !ok {
			// a file that does not exist can still be the place of a fault: the compiler probes for an
			// overridden google/protobuf/descriptor.proto, and that call can fail or panic like any other
			switch f.Kind {
			case "error", "accessor-error":
				w.fired.Add(1)
				return protocompile.SearchResult{}, w.errs[name]
			case "panic", "accessor-panic":
				w.fired.Add(1)
				panic(w.panics[name])
			}
			return protocompile.SearchResult{}, fmt.Errorf("file not found: %s", name)
		}
		switch f.Kind {
		case "error", "accessor-error":
			return protocompile.SearchResult{}, w.errs[name]
		case "panic", "accessor-panic":
			panic(w.panics[name])
		case "short-read":
			w.handed.Add(1)
			return protocompile.SearchResult{Source: &failingReader{data: s, failAt: f.At, err: w.errs[name], closed: &w.closed}}, nil
		}
		w.handed.Add(1)
		return protocompile.SearchResult{Source: &failingReader{data: s, failAt: len(s) + 1, err: io.EOF, closed: &w.closed}}, nil
	}
	if w.useAcc {
		return &protocompile.SourceResolver{Accessor: func(name string) (io.ReadCloser, error) {
			sr, err := find(name)
			if err != nil {
				return nil, err
			}
			return sr.Source.(io.ReadCloser), nil
		}}
	}
	return protocompile.ResolverFunc(find)
}

// fixed graphs
func c07Graphs() map[string]importGraph {
	return map[string]importGraph{
		"single":  {n: 1, adj: [][]int{{}}},
		"chain4":  {n: 4, adj: [][]int{{1}, {2}, {3}, {}}},
		"diamond": {n: 4, adj: [][]int{{1, 2}, {3}, {3}, {}}},
		"fanout6": {n: 7, adj: [][]int{{1, 2, 3, 4, 5, 6}, {}, {}, {}, {}, {}, {}}},
	}
}

// waitNoLibraryGoroutines waits (logical criterion) until no goroutine has compiler frames.
// It returns leaked=true with a dump when such goroutines remain, parked and unchanging.
func waitNoLibraryGoroutines() (leaked bool, undecided bool, dump string) {
	pats := []string{"protocompile.(*executor)", "protocompile.(*task)"}
	for i := 0; i < 400; i++ {
		gs := vlib.DumpGoroutines()
		n := 0
		for _, pat := range pats {
			n += len(vlib.LibraryGoroutines(gs, pat))
		}
		if n == 0 {
			return false, false, ""
		}
		if i > 20 && i%20 == 0 {
			for _, pat := range pats {
				if stuck, d := vlib.StableAndParked(pat, 200*time.Millisecond); stuck {
					return true, false, d
				}
			}
		}
		time.Sleep(time.Duration(1+i/10) * time.Millisecond)
	}
	var sb strings.Builder
	for _, g := range vlib.DumpGoroutines() {
		sb.WriteString(g.Text + "\n")
	}
	return false, true, sb.String()
}

var c07Mu sync.Mutex // one case at a time per process: goroutine leaks must be attributable

func runFaultCase(r *vlib.Run, p *vlib.Perturber, id, gname string, g importGraph, plan faultPlan, par int, std, useAcc bool, seed uint64) {
	c07Mu.Lock()
	defer c07Mu.Unlock()
	prefix := "" // names must match the plan
	src := g.sources(prefix)
	w := &faultWorld{src: src, plan: plan, errs: map[string]error{}, panics: map[string]any{}, useAcc: useAcc}
	for n := range src {
		w.errs[n] = fmt.Errorf("injected-error-for-%s", n)
		w.panics[n] = &panicValue{file: n}
	}
	for n := range plan.Files {
		if _, ok := w.errs[n]; !ok {
			w.errs[n] = fmt.Errorf("injected-error-for-%s", n)
			w.panics[n] = &panicValue{file: n}
		}
	}
	ctx, cancel := context.WithCancel(context.Background())
	w.cancel = cancel
	defer cancel()
	var res protocompile.Resolver = w.resolver()
	if std {
		res = protocompile.WithStandardImports(res)
	}
	p.SetSeed(seed, []string{"doCompile.afterResolve", "result.fail", "asFile.afterRelease", "asFile.beforeWaitDep", "doCompile.beforeAcquire", ""}[int(seed%6)])
	names := []string{fileName(prefix, 0)}
	r.Begin(id, map[string]any{"graph": gname, "plan": plan.String(), "parallelism": par})
	rc := runCompile(func() *gen.Outcome { return gen.CompileWith(res, names, gen.Opts{Par: par, Ctx: ctx}) })
	wit := map[string]any{"graph": gname + " " + g.String(), "plan": plan.String(), "parallelism": par, "standard_imports": std, "via_accessor": useAcc}
	nf := 0
	var faulty []string
	for n, f := range plan.Files {
		if f.Kind != "ok" && n != "google/protobuf/descriptor.proto" {
			nf++
			faulty = append(faulty, n)
		}
	}
	key := ""
	if nf > 0 || plan.CancelAfter > 0 {
		key = fmt.Sprintf("%s|%s|%d|%v|%v", gname, plan.String(), par, std, useAcc)
	}
	r.Eval(key)
	if !rc.returned {
		if rc.stuck {
			wit["goroutines"] = rc.dump
			r.Violation("c07.hang", classOfPlan(plan)+": Compile never returns (compiler goroutines parked, dumps identical)", id, wit)
		} else {
			r.Inconclusive("compile did not return and is not quiescent: " + id)
		}
		return
	}
	out := rc.out
	wit["error"] = fmt.Sprint(out.Err)
	if out.Panic != nil && !strings.HasPrefix(fmt.Sprint(out.Panic), "PanicError") {
		wit["panic"] = fmt.Sprint(out.Panic)
		r.Violation("c07.panic-escapes", classOfPlan(plan)+": a panic escaped Compile", id, wit)
		return
	}
	switch {
	case nf > 0 && out.Err == nil:
		r.Violation("c07.fault-swallowed", classOfPlan(plan)+": Compile returned nil although a required file faulted", id, wit)
	case nf == 1 && plan.CancelAfter == 0:
		f := plan.Files[faulty[0]]
		switch f.Kind {
		case "error", "accessor-error", "short-read":
			if !errors.Is(out.Err, w.errs[faulty[0]]) {
				r.Violation("c07.error-not-propagated", f.Kind+": the returned error does not wrap the injected error", id, wit)
			}
		case "panic", "accessor-panic":
			var pe protocompile.PanicError
			if !errors.As(out.Err, &pe) {
				r.Violation("c07.panic-not-surfaced", f.Kind+": the returned error is not a PanicError", id, wit)
			} else if pe.Value != w.panics[faulty[0]] {
				r.Violation("c07.panic-value-lost", f.Kind+": PanicError does not carry the panic value", id, wit)
			}
		}
	case nf == 0 && plan.CancelAfter == 0 && out.Err != nil:
		r.Violation("c07.spurious-failure", "no fault injected but Compile failed: "+gen.ClassifyErr(out.Err.Error()), id, wit)
	}
	if plan.CancelAfter > 0 && nf == 0 {
		if out.Err == nil {
			r.Class("observed:cancelled-but-completed")
		} else {
			r.Class("cancel:error-returned")
		}
	}
	r.Class("plan:" + classOfPlan(plan))
	if pf, ok := plan.Files["google/protobuf/descriptor.proto"]; ok && w.fired.Load() > 0 && nf == 0 && plan.CancelAfter == 0 {
		// the probe for an overridden descriptor.proto faulted. The file is optional and the compiler documents that a
		// failure or a panic of this one call means "no override", so a successful compilation is fine; what is
		// required is that Compile returned (decided above) and that an error, if any, is the injected one.
		switch pf.Kind {
		case "panic":
			var pe protocompile.PanicError
			if errors.As(out.Err, &pe) && pe.Value != w.panics["google/protobuf/descriptor.proto"] {
				r.Violation("c07.panic-value-lost", "descriptor.proto probe panicked: PanicError does not carry the panic value", id, wit)
			} else if out.Err != nil && !errors.As(out.Err, &pe) {
				r.Violation("c07.spurious-failure", "descriptor.proto probe panicked: Compile failed with another error: "+gen.ClassifyErr(out.Err.Error()), id, wit)
			}
			r.Class("probe-panic:returned")
		default:
			if out.Err != nil && !errors.Is(out.Err, w.errs["google/protobuf/descriptor.proto"]) {
				r.Violation("c07.error-not-propagated", "descriptor.proto probe failed: Compile failed with an error that does not wrap the injected one", id, wit)
			}
			r.Class("probe-error:returned")
		}
	}
	// every source the compiler was handed has been closed by the time Compile has returned and its goroutines are gone
	// (an unclosed stream keeps whatever feeds it blocked for good)
	defer func() {
		if h, c := w.handed.Load(), w.closed.Load(); c < h {
			wit["sources_handed"], wit["sources_closed"] = h, c
			r.Violation("c07.source-not-closed", classOfPlan(plan)+": a source handed to the compiler was never closed", id, wit)
		}
	}()
	// no goroutine of the compiler may remain once in-flight harness calls have returned
	leaked, undecided, dump := waitNoLibraryGoroutines()
	if leaked {
		wit["goroutines"] = dump
		r.Violation("c07.goroutine-leak", classOfPlan(plan)+": compiler goroutines remain parked after Compile returned", id, wit)
	} else if undecided {
		r.Inconclusive("compiler goroutines still present but not quiescent after the wait: " + id)
	}
}

func classOfPlan(p faultPlan) string {
	kinds := map[string]int{}
	for n, f := range p.Files {
		if f.Kind != "ok" {
			k := f.Kind
			if n == "google/protobuf/descriptor.proto" {
				k = "descriptor-probe-" + k
			}
			kinds[k]++
		}
	}
	var ks []string
	for k, n := range kinds {
		ks = append(ks, fmt.Sprintf("%dx%s", n, k))
	}
	sort.Strings(ks)
	s := strings.Join(ks, "+")
	if s == "" {
		s = "no-fault"
	}
	if p.CancelAfter > 0 {
		s += "+cancel"
	}
	return s
}

func TestC07(t *testing.T) {
	r := vlib.Start(t, "C07")
	defer r.Finish()
	p := vlib.InstallPerturber()
	r.Extra("rule", "fault plans over fixed import graphs (single file, chain of 4, diamond, fan-out of 6; with and without standard imports; faults injected through a ResolverFunc or a SourceResolver accessor): "+
		"EVERY single fault (file x {error, panic(v), short read failing at byte 0 / 1 / middle / len-1}), every pair of faults on the diamond, a fault on the optional descriptor.proto probe, "+
		"cancellation inside the k-th resolver call for every k, each x MaxParallelism {1,2,8} x P perturbation seeds (P=2 quick, 16 thorough) + random triples; "+
		"plus a SourceResolver with 2-3 ImportPaths whose accessor fails (plain error, permission error, panic) for one (path, file) pair that the search reaches, with and without a copy of the file in a later path. One case at a time per process so that "+
		"leftover goroutines are attributable. non-trivial = plan with >=1 fault or a cancellation; distinct = (graph, plan, parallelism, resolver form)")
	r.Extra("assumptions", []string{"hang and leak are decided by the logical quiescence criterion on goroutine dumps (compiler frames parked and unchanged), never by elapsed time",
		"a cancellation that arrives when nothing remains to be done may legitimately let Compile succeed: recorded, not decided"})
	graphs := c07Graphs()
	gnames := []string{"single", "chain4", "diamond", "fanout6"}
	kinds := []string{"error", "panic", "short-read"}
	var plans []struct {
		g    string
		plan faultPlan
	}
	add := func(g string, pl faultPlan) {
		plans = append(plans, struct {
			g    string
			plan faultPlan
		}{g, pl})
	}
	for _, gn := range gnames {
		g := graphs[gn]
		src := g.sources("")
		add(gn, faultPlan{Files: map[string]fault{}})
		for i := 0; i < g.n; i++ {
			f := fileName("", i)
			for _, k := range kinds {
				if k == "short-read" {
					for _, at := range []int{0, 1, len(src[f]) / 2, len(src[f]) - 1} {
						add(gn, faultPlan{Files: map[string]fault{f: {Kind: k, At: at}}})
					}
				} else {
					add(gn, faultPlan{Files: map[string]fault{f: {Kind: k}}})
				}
			}
		}
		for k := 1; k <= g.n+1; k++ {
			add(gn, faultPlan{Files: map[string]fault{}, CancelAfter: k})
		}
		// the optional probe for an overridden descriptor.proto
		add(gn, faultPlan{Files: map[string]fault{"google/protobuf/descriptor.proto": {Kind: "error"}}})
		add(gn, faultPlan{Files: map[string]fault{"google/protobuf/descriptor.proto": {Kind: "panic"}}})
	}
	// every pair on the diamond
	{
		g := graphs["diamond"]
		for a := 0; a < g.n; a++ {
			for b := a + 1; b < g.n; b++ {
				for _, ka := range kinds {
					for _, kb := range kinds {
						add("diamond", faultPlan{Files: map[string]fault{fileName("", a): {Kind: ka, At: 3}, fileName("", b): {Kind: kb, At: 3}}})
					}
				}
			}
		}
	}
	r.Extra("enumerated_plans", len(plans))
	P := r.N(2, 16)
	pars := []int{1, 2, 8}
	total := len(plans) * len(pars) * P
	// cases are sliced over the batches (child processes); within a process they run one at a time
	for idx := 0; idx < total; idx++ {
		if !r.Mine(idx) {
			continue
		}
		pi := idx / (len(pars) * P)
		par := pars[(idx/P)%len(pars)]
		s := idx % P
		pl := plans[pi]
		id := fmt.Sprintf("enum/%d/p%d/s%d", pi, par, s)
		if !r.Want(id) {
			continue
		}
		reps := 1
		if r.Replaying() {
			reps = r.ReplayRep
		}
		for k := 0; k < reps; k++ {
			runFaultCase(r, p, id, pl.g, graphs[pl.g], pl.plan, par, (pi+s)%2 == 0, (pi+s)%3 == 0, r.Seed*1009+uint64(idx*13+k))
		}
		if idx == 5 {
			r.Sample("fault-plan", map[string]any{"graph": pl.g, "plan": pl.plan.String(), "parallelism": par})
		}
	}
	// random triples and cancellation combined with faults
	nRand := r.N(200, 6000)
	for i := 0; i < nRand; i++ {
		if !r.Mine(i) {
			continue
		}
		id := fmt.Sprintf("rand/%d", i)
		if !r.Want(id) {
			continue
		}
		rng := r.Rng(id)
		gn := gnames[rng.Intn(len(gnames))]
		g := graphs[gn]
		pl := faultPlan{Files: map[string]fault{}}
		for k := 0; k < rng.Range(1, 3); k++ {
			pl.Files[fileName("", rng.Intn(g.n))] = fault{Kind: kinds[rng.Intn(3)], At: rng.Intn(40)}
		}
		if rng.Chance(0.4) {
			pl.CancelAfter = rng.Range(1, g.n+1)
		}
		runFaultCase(r, p, id, gn, g, pl, pars[rng.Intn(3)], rng.Bool(), rng.Chance(0.3), r.Seed*31+uint64(i))
	}
	// SourceResolver with several import paths and a failing accessor
	nPaths := r.N(150, 4000)
	for i := 0; i < nPaths; i++ {
		if !r.Mine(i) {
			continue
		}
		id := fmt.Sprintf("paths/%d", i)
		if !r.Want(id) {
			continue
		}
		rng := r.Rng(id)
		runImportPathCase(r, p, id, rng, pars[rng.Intn(3)])
	}
	r.Extra("hook_sites_reached", p.SiteCounts())
}
