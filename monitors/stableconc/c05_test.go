package stableconc

import (
	"bytes"
	"fmt"
	"sort"
	"strings"
	"sync"
	"testing"

	"github.com/bufbuild/protocompile/internal/verifmon/gen"
	"github.com/bufbuild/protocompile/internal/verifmon/vlib"
	"github.com/bufbuild/protocompile/linker"
)

// C05 — output is independent of parallelism, order and scheduling.

func resultBytes(o *gen.Outcome) map[string][]byte {
	out := map[string][]byte{}
	for n, p := range gen.AllProtos(o.Files) {
		out[n] = gen.DetBytes(p)
	}
	return out
}

func prefixSources(prefix string, src map[string]string, names []string) (map[string]string, []string) {
	// file names are made unique per case so that hook events can be attributed; imports are rewritten.
	out := map[string]string{}
	for n, s := range src {
		for other := range src {
			s = replaceImport(s, other, prefix+other)
		}
		out[prefix+n] = s
	}
	var nn []string
	for _, n := range names {
		nn = append(nn, prefix+n)
	}
	return out, nn
}

func replaceImport(s, from, to string) string {
	for _, q := range []string{`"`, `'`} {
		s = replaceAll(s, "import "+q+from+q, "import "+q+to+q)
		s = replaceAll(s, "import public "+q+from+q, "import public "+q+to+q)
		s = replaceAll(s, "import weak "+q+from+q, "import weak "+q+to+q)
	}
	return s
}

func replaceAll(s, a, b string) string {
	return string(bytes.ReplaceAll([]byte(s), []byte(a), []byte(b)))
}

func TestC05(t *testing.T) {
	r := vlib.Start(t, "C05")
	defer r.Finish()
	p := vlib.InstallPerturber()
	r.Extra("rule", "generated multi-file models with cross-file references (valid) and rule-tagged mutants of them (invalid), one case in seven with an import or a requested name the resolver cannot find: baseline = MaxParallelism 1, sorted request order; "+
		"variants = MaxParallelism {2,3,4,8,16} x shuffled request orders and requested subsets x perturbation seeds/focus sites x repeats, with and without a caller-supplied fresh Symbols table, "+
		"all under the race detector. Compared: success, and the deterministic encoding of every produced descriptor (requested files and everything reachable through imports). "+
		"non-trivial = model with >=2 files; distinct = (model, variant)")
	r.Extra("assumptions", []string{"the sequential sorted compilation is the reference", "a data race in compiler code refutes schedule independence on unobserved schedules (reported by the driver from the race log)"})
	if !vlib.HooksCompiledIn() {
		r.Inconclusive("hooks are not compiled in")
	}
	var ilMu sync.Mutex
	il := map[uint64]struct{}{}
	focus := []string{"asFile.afterSetBlockedOn", "asFile.afterCompileDep", "asFile.afterRelease", "asFile.depsResolved", "link.start", "link.afterLink", "link.afterOptions", "symbols.importPackage.beforeUpgrade", "symbols.import.afterImportedCheck", "symbols.importFile.afterCommit", ""}
	n := r.N(60, 1200)
	V := r.N(10, 40)
	r.Par(n, func(i int) {
		id := fmt.Sprintf("g/%d", i)
		if !r.Want(id) {
			return
		}
		rng := r.Rng(id)
		cfg := gen.StdConfig(rng, i)
		cfg.MaxFiles = 2 + i%5
		m, err := gen.GenModel(rng, cfg)
		if err != nil {
			r.Class("g:model-not-decided")
			return
		}
		src, err := m.Sources(nil)
		if err != nil {
			r.Inconclusive("render: " + err.Error())
			return
		}
		names := m.Names()
		invalid := false
		if i%3 == 2 {
			// an invalid set: one rule broken
			for try := 0; try < 6; try++ {
				op := &gen.Operators[rng.Intn(len(gen.Operators))]
				if mu, ok, err := gen.Mutate(rng, m, op); err == nil && ok {
					src, names, invalid = mu.Sources, mu.Names, true
					break
				}
			}
		}
		sort.Strings(names)
		shape := "plain"
		switch i % 6 {
		case 1, 3:
			// several files import the same well-known files, which arrive as built descriptors with imports of their own
			shape = "shared-descriptor-imports"
			k := rng.Range(1, 3)
			wk := append([]string(nil), gen.WellKnownImports...)
			vlib.Shuffle(rng, wk)
			for _, nme := range names {
				if nme != "opts/options.proto" {
					src[nme] = gen.InjectImports(src[nme], wk[:k])
				}
			}
		}
		if i%6 == 5 {
			// fan-out below a public re-export: many files reach the same symbols of base.proto through reexp.proto
			shape = "public-reexport-fan-out"
			src = map[string]string{}
			var sb strings.Builder
			sb.WriteString("syntax = \"proto3\";\npackage fan.base;\n")
			nb := rng.Range(3, 10)
			for b := 0; b < nb; b++ {
				fmt.Fprintf(&sb, "message B%d { int32 v = 1; }\nenum E%d { E%d_ZERO = 0; }\n", b, b, b)
			}
			src["fan/base.proto"] = sb.String()
			src["fan/reexp.proto"] = "syntax = \"proto3\";\npackage fan.re;\nimport public \"fan/base.proto\";\nmessage R { fan.base.B0 b = 1; }\n"
			names = nil
			for d := 0; d < rng.Range(4, 14); d++ {
				sb.Reset()
				fmt.Fprintf(&sb, "syntax = \"proto3\";\npackage fan.d%d;\nimport \"fan/reexp.proto\";\nmessage D%d {\n", d, d)
				for f := 1; f <= rng.Range(2, 30); f++ {
					if rng.Bool() {
						fmt.Fprintf(&sb, "  fan.base.B%d f%d = %d;\n", rng.Intn(nb), f, f)
					} else {
						fmt.Fprintf(&sb, "  .fan.base.E%d f%d = %d;\n", rng.Intn(nb), f, f)
					}
				}
				sb.WriteString("}\n")
				n := fmt.Sprintf("fan/d%d.proto", d)
				src[n] = sb.String()
				names = append(names, n)
			}
			sort.Strings(names)
		}
		if i%7 == 6 {
			// something the resolver cannot find: an import of one file, or one of the requested names
			if rng.Bool() {
				shape += "+missing-import"
				victim := names[rng.Intn(len(names))]
				src[victim] = gen.InjectImports(src[victim], []string{"nosuch/missing.proto"})
			} else {
				shape += "+missing-requested-file"
				names = append(names, "nosuch/requested.proto")
				sort.Strings(names)
			}
		}
		prefix := fmt.Sprintf("k%d/", caseCtr.Add(1))
		psrc, pnames := prefixSources(prefix, src, names)
		if i%6 == 4 {
			// the resolver overrides descriptor.proto with source: every file then depends on it implicitly
			shape = "descriptor.proto-overridden"
			ds, err := gen.DescriptorProtoSource()
			if err != nil {
				r.Inconclusive("descriptor.proto source: " + err.Error())
				return
			}
			psrc["google/protobuf/descriptor.proto"] = ds
		}
		r.Class("shape:" + shape)
		p.SetSeed(r.Seed+uint64(i), "")
		bres := runCompile(func() *gen.Outcome { return gen.Compile(psrc, pnames, gen.Opts{Par: 1}) })
		if !bres.returned {
			if bres.stuck {
				r.Eval(gen.SrcKey(src) + "|1|sorted")
				r.Violation("c05.deadlock", shape+" set: Compile with MaxParallelism 1 never returns", id, map[string]any{"sources": psrc, "requested": pnames, "parallelism": 1, "goroutines": bres.dump})
			} else {
				r.Inconclusive("sequential compile did not return and is not quiescent: " + id)
			}
			return
		}
		base := bres.out
		baseBytes := resultBytes(base)
		cls := "valid"
		if !base.OK() {
			cls = "invalid"
		}
		_ = invalid
		for v := 0; v < V; v++ {
			vid := fmt.Sprintf("%s/v%d", id, v)
			if !r.Want(vid) {
				continue
			}
			par := []int{2, 3, 4, 8, 16, 1}[v%6]
			req := append([]string(nil), pnames...)
			vlib.Shuffle(rng, req)
			if v%4 == 3 && len(req) > 1 {
				req = req[:1+rng.Intn(len(req))]
			}
			var syms *linker.Symbols
			if v%3 == 1 {
				syms = &linker.Symbols{}
			}
			reps := 1
			if r.Replaying() {
				reps = r.ReplayRep
			}
			for k := 0; k < reps; k++ {
				p.SetSeed(r.Seed*31+uint64(i*1000+v*7+k), focus[(i+v+k)%len(focus)])
				ct := p.Register(prefix)
				res := runCompile(func() *gen.Outcome { return gen.Compile(psrc, req, gen.Opts{Par: par, Symbols: syms}) })
				_, h, _ := ct.Snapshot()
				p.Unregister(prefix)
				ilMu.Lock()
				il[h] = struct{}{}
				ilMu.Unlock()
				key := ""
				if len(names) >= 2 {
					key = fmt.Sprintf("%s|%d|%v|%v", gen.SrcKey(src), par, req, syms != nil)
				}
				r.Eval(key)
				r.Class(cls)
				w := map[string]any{"sources": psrc, "requested": req, "parallelism": par, "fresh_symbols": syms != nil, "baseline_errors": base.ErrSummary()}
				if !res.returned {
					if res.stuck {
						w["goroutines"] = res.dump
						r.Violation("c05.deadlock", cls+" set: Compile never returns", vid, w)
					} else {
						r.Inconclusive("compile did not return and is not quiescent: " + vid)
					}
					continue
				}
				out := res.out
				// success must agree with the baseline, restricted to what was requested: a subset of an
				// invalid set may be valid, so compare with a sequential compile of the same subset.
				ref := base
				refBytes := baseBytes
				if len(req) != len(pnames) {
					sub := append([]string(nil), req...)
					sort.Strings(sub)
					rres := runCompile(func() *gen.Outcome { return gen.Compile(psrc, sub, gen.Opts{Par: 1}) })
					if !rres.returned {
						if rres.stuck {
							w["goroutines"] = rres.dump
							w["requested"] = sub
							r.Violation("c05.deadlock", cls+" set: Compile with MaxParallelism 1 never returns", vid, w)
						} else {
							r.Inconclusive("sequential compile did not return and is not quiescent: " + vid)
						}
						continue
					}
					ref = rres.out
					refBytes = resultBytes(ref)
				}
				if out.OK() != ref.OK() {
					w["errors"] = out.ErrSummary()
					w["reference_errors"] = ref.ErrSummary()
					r.Violation("c05.success-differs", fmt.Sprintf("%s set: success=%v with parallelism/order variant, %v sequentially", cls, out.OK(), ref.OK()), vid, w)
					continue
				}
				if !out.OK() {
					continue
				}
				got := resultBytes(out)
				for nme, b := range got {
					if rb, ok := refBytes[nme]; ok && !bytes.Equal(rb, b) {
						d := gen.Diff(gen.AllProtos(out.Files)[nme], gen.AllProtos(ref.Files)[nme])
						w["file"] = nme
						w["diff variant!=sequential"] = d
						r.Violation("c05.bytes-differ", gen.DiffClass(d), vid, w)
					}
				}
				if len(got) != len(refBytes) {
					r.Violation("c05.file-set-differs", "different set of produced files", vid, w)
				}
			}
		}
		if i == 0 {
			r.Sample("model-files", names)
		}
	})
	r.Extra("distinct_interleavings_observed", len(il))
	r.Extra("hook_sites_reached", p.SiteCounts())
}
