package stableconc

import (
	"fmt"
	"sort"
	"strings"
	"testing"

	"google.golang.org/protobuf/reflect/protodesc"
	"google.golang.org/protobuf/reflect/protoreflect"
	"google.golang.org/protobuf/reflect/protoregistry"
	"google.golang.org/protobuf/types/descriptorpb"

	"github.com/bufbuild/protocompile"
	"github.com/bufbuild/protocompile/internal/verifmon/gen"
	"github.com/bufbuild/protocompile/internal/verifmon/vlib"
	"github.com/bufbuild/protocompile/linker"
	"github.com/bufbuild/protocompile/reporter"
)

// C17 — a failed symbol import leaves the table unchanged.

var c17Files = map[string]string{
	"base.proto": `syntax = "proto2"; package base; message Ext { extensions 100 to 100000; } message T {}`,
	// name collisions
	"a1.proto": `syntax = "proto2"; package a; import "base.proto"; message X { optional int32 f = 1; enum In { IN_A = 0; } } extend base.Ext { optional int32 xa = 1000; }`,
	"a2.proto": `syntax = "proto2"; package a; import "base.proto"; message Y {} message X { optional string g = 1; }`,
	// the colliding element is the LAST one of the file, after extensions
	"a3.proto": `syntax = "proto2"; package a; import "base.proto"; message Z3 {} extend base.Ext { optional int32 za = 1003; } enum X { X_ZERO = 0; }`,
	// extension-number collisions (first / second extension of the file collides)
	"c1.proto": `syntax = "proto2"; package c; import "base.proto"; message C1 {} extend base.Ext { optional string xc = 1000; optional int32 c_ok = 1001; }`,
	"c2.proto": `syntax = "proto2"; package c2; import "base.proto"; message C2 {} extend base.Ext { optional int32 c2_ok = 1002; optional string xc2 = 1000; }`,
	// package components
	"d1.proto": `syntax = "proto2"; package q.r; import "base.proto"; message D1 {} message X {} extend base.Ext { optional int32 xd = 1000; }`,
	"e1.proto": `syntax = "proto2"; import "base.proto"; message q {}`,
	// enum value scoping collision
	"f1.proto": `syntax = "proto2"; package a; import "base.proto"; enum F { IN_B = 0; } message W { enum G { IN_C = 0; } }`,
	"f2.proto": `syntax = "proto2"; package a; import "base.proto"; enum F2 { IN_B = 0; }`,
	// service / method names
	"s1.proto": `syntax = "proto2"; package a; import "base.proto"; service Svc { rpc Do(base.T) returns (base.T); }`,
	"s2.proto": `syntax = "proto2"; package a; import "base.proto"; message Svc {}`,
}

type c17World struct {
	names   []string
	results map[string]protoreflect.FileDescriptor // linker results (with source)
	descs   map[string]protoreflect.FileDescriptor // protodesc-built descriptors
	fqns    []string
	exts    []int32
}

func buildC17World() (*c17World, error) {
	w := &c17World{results: map[string]protoreflect.FileDescriptor{}, descs: map[string]protoreflect.FileDescriptor{}}
	// base is compiled once and its linked OBJECT is shared by every other file
	baseOut := gen.Compile(c17Files, []string{"base.proto"}, gen.Opts{NoStdlib: true, SourceInfo: protocompile.SourceInfoStandard})
	if !baseOut.OK() {
		return nil, fmt.Errorf("base: %s", baseOut.ErrSummary())
	}
	base := baseOut.Files[0]
	w.results["base.proto"] = base
	var fds []*descriptorpb.FileDescriptorProto
	fds = append(fds, base.(linker.Result).FileDescriptorProto())
	for n := range c17Files {
		w.names = append(w.names, n)
	}
	sort.Strings(w.names)
	for _, n := range w.names {
		if n == "base.proto" {
			continue
		}
		res := protocompile.ResolverFunc(func(name string) (protocompile.SearchResult, error) {
			if name == "base.proto" {
				return protocompile.SearchResult{Desc: base}, nil
			}
			if s, ok := c17Files[name]; ok {
				return protocompile.SearchResult{Source: strings.NewReader(s)}, nil
			}
			return protocompile.SearchResult{}, fmt.Errorf("not found")
		})
		out := gen.CompileWith(res, []string{n}, gen.Opts{SourceInfo: protocompile.SourceInfoStandard})
		if !out.OK() {
			return nil, fmt.Errorf("%s: %s", n, out.ErrSummary())
		}
		w.results[n] = out.Files[0]
		fds = append(fds, out.Files[0].(linker.Result).FileDescriptorProto())
	}
	// protodesc-built descriptors: every file is built on its own (the files collide on purpose) against
	// ONE shared base descriptor object.
	baseDesc, err := protodesc.NewFile(fds[0], nil)
	if err != nil {
		return nil, err
	}
	byName := map[string]*descriptorpb.FileDescriptorProto{}
	for _, fd := range fds {
		byName[fd.GetName()] = fd
	}
	seen := map[string]bool{}
	for _, n := range w.names {
		var fd protoreflect.FileDescriptor = baseDesc
		if n != "base.proto" {
			reg := &protoregistry.Files{}
			if err := reg.RegisterFile(baseDesc); err != nil {
				return nil, err
			}
			fd, err = protodesc.NewFile(byName[n], reg)
			if err != nil {
				return nil, err
			}
		}
		w.descs[n] = fd
		// universe of names: every descriptor + package prefixes
		var walk func(d protoreflect.Descriptor)
		add := func(s string) {
			if s != "" && !seen[s] {
				seen[s] = true
				w.fqns = append(w.fqns, s)
			}
		}
		walk = func(d protoreflect.Descriptor) {
			add(string(d.FullName()))
			switch x := d.(type) {
			case protoreflect.MessageDescriptor:
				for i := 0; i < x.Fields().Len(); i++ {
					walk(x.Fields().Get(i))
				}
				for i := 0; i < x.Messages().Len(); i++ {
					walk(x.Messages().Get(i))
				}
				for i := 0; i < x.Enums().Len(); i++ {
					walk(x.Enums().Get(i))
				}
				for i := 0; i < x.Extensions().Len(); i++ {
					walk(x.Extensions().Get(i))
				}
			case protoreflect.EnumDescriptor:
				for i := 0; i < x.Values().Len(); i++ {
					walk(x.Values().Get(i))
				}
			case protoreflect.ServiceDescriptor:
				for i := 0; i < x.Methods().Len(); i++ {
					walk(x.Methods().Get(i))
				}
			}
		}
		pk := string(fd.Package())
		for pk != "" {
			add(pk)
			if i := strings.LastIndex(pk, "."); i >= 0 {
				pk = pk[:i]
			} else {
				pk = ""
			}
		}
		for i := 0; i < fd.Messages().Len(); i++ {
			walk(fd.Messages().Get(i))
		}
		for i := 0; i < fd.Enums().Len(); i++ {
			walk(fd.Enums().Get(i))
		}
		for i := 0; i < fd.Extensions().Len(); i++ {
			walk(fd.Extensions().Get(i))
		}
		for i := 0; i < fd.Services().Len(); i++ {
			walk(fd.Services().Get(i))
		}
	}
	sort.Strings(w.fqns)
	w.exts = []int32{1000, 1001, 1002, 1003, 999}
	return w, nil
}

func (w *c17World) get(kind, name string) protoreflect.FileDescriptor {
	if kind == "result" {
		return w.results[name]
	}
	return w.descs[name]
}

// view is everything observable about a table: which names and extension numbers are known, and in which file.
func (w *c17World) view(s *linker.Symbols) string {
	var sb strings.Builder
	for _, n := range w.fqns {
		if sp := s.Lookup(protoreflect.FullName(n)); sp != nil {
			fmt.Fprintf(&sb, "%s@%s;", n, sp.Start().Filename)
		}
	}
	for _, x := range w.exts {
		if sp := s.LookupExtension("base.Ext", protoreflect.FieldNumber(x)); sp != nil {
			fmt.Fprintf(&sb, "ext%d@%s;", x, sp.Start().Filename)
		}
	}
	return sb.String()
}

func viewDiff(a, b string) string {
	as, bs := map[string]bool{}, map[string]bool{}
	for _, x := range strings.Split(a, ";") {
		as[x] = true
	}
	for _, x := range strings.Split(b, ";") {
		bs[x] = true
	}
	var out []string
	for x := range bs {
		if !as[x] && x != "" {
			out = append(out, "+"+x)
		}
	}
	for x := range as {
		if !bs[x] && x != "" {
			out = append(out, "-"+x)
		}
	}
	sort.Strings(out)
	return strings.Join(out, " ")
}

// classOf abstracts a leaked entry ("+a.X@a2.proto") to its kind.
func leakClass(w *c17World, diff string) string {
	kinds := map[string]bool{}
	for _, e := range strings.Fields(diff) {
		name := strings.TrimLeft(e, "+-")
		name = name[:strings.Index(name+"@", "@")]
		switch {
		case strings.HasPrefix(name, "ext"):
			kinds["extension-number"] = true
		case name == "a" || name == "c" || name == "c2" || name == "q" || name == "q.r" || name == "base":
			kinds["package"] = true
		default:
			kinds["symbol"] = true
		}
	}
	var ks []string
	for k := range kinds {
		ks = append(ks, k)
	}
	sort.Strings(ks)
	return strings.Join(ks, "+")
}

// collectAll is a reporter that accepts every error (the import then fails with the invalid-source sentinel).
type collectAll struct{}

func (collectAll) Error(reporter.ErrorWithPos) error { return nil }
func (collectAll) Warning(reporter.ErrorWithPos)     {}

func (w *c17World) runHistory(r *vlib.Run, id, kind string, hist []string, tolerant bool) {
	T, R := &linker.Symbols{}, &linker.Symbols{}
	imp := func(s *linker.Symbols, name string) error {
		if tolerant {
			return s.Import(w.get(kind, name), reporter.NewHandler(collectAll{}))
		}
		return s.Import(w.get(kind, name), reporter.NewHandler(nil))
	}
	if err := imp(T, "base.proto"); err != nil {
		r.Inconclusive("base import failed: " + err.Error())
		return
	}
	_ = imp(R, "base.proto")
	failures := 0
	wit := map[string]any{"descriptor_kind": kind, "history": hist, "reporter": map[bool]string{false: "default (fails on the first error)", true: "accepts every error"}[tolerant]}
	for step, name := range hist {
		before := w.view(T)
		errT := imp(T, name)
		if errT == nil {
			errR := imp(R, name)
			if errR != nil {
				wit["step"] = step
				wit["file"] = name
				wit["replica_error"] = errR.Error()
				r.Violation("c17.replica-diverges", "an import succeeds on the table that saw a failed attempt but fails on the replica that did not", id, wit)
				return
			}
			continue
		}
		failures++
		wit["step"] = step
		wit["file"] = name
		wit["error"] = errT.Error()
		after := w.view(T)
		if after != before {
			d := viewDiff(before, after)
			wit["leaked"] = d
			cause := "a name collision"
			if strings.Contains(errT.Error(), "extension with tag") {
				cause = "an extension-number collision"
			} else if strings.Contains(errT.Error(), "as a package") {
				cause = "a name-vs-package collision"
			}
			r.Violation("c17.table-changed-by-failed-import", "after an import that failed on "+cause+": "+leakClass(w, d)+" of the failed file left behind", id, wit)
			return
		}
		if err2 := imp(T, name); err2 == nil {
			r.Violation("c17.second-import-succeeds", "importing the same file again after a failed import returns nil", id, wit)
			return
		}
		// the replica never sees the failed attempt; it must behave like T from here on
		if errR := imp(R, name); errR == nil {
			r.Violation("c17.replica-diverges", "an import fails on the table but succeeds on a replica built by the same successful prefix", id, wit)
			return
		}
		// the failed attempt on R is itself a failed import; compare views of T and R, which must agree
		if vt, vr := w.view(T), w.view(R); vt != vr {
			wit["diff T vs R"] = viewDiff(vr, vt)
			r.Violation("c17.replica-diverges", "tables built by the same history differ after failed attempts", id, wit)
			return
		}
	}
	// finally: follow-up imports of every file behave the same on a fresh replica built from the successful prefix only
	F := &linker.Symbols{}
	_ = imp(F, "base.proto")
	T2 := &linker.Symbols{}
	_ = imp(T2, "base.proto")
	for _, name := range hist {
		if imp(T2, name) == nil {
			_ = imp(F, name)
		} else {
			// F skips the failing file entirely
			continue
		}
	}
	for _, name := range w.names {
		e1, e2 := imp(T2, name), imp(F, name)
		if (e1 == nil) != (e2 == nil) {
			wit["follow_up"] = name
			wit["with_failed_attempts"] = fmt.Sprint(e1)
			wit["without"] = fmt.Sprint(e2)
			r.Violation("c17.follow-up-import-differs", "a follow-up import behaves differently on the table that saw failed attempts", id, wit)
			return
		}
		if e1 != nil {
			// both failed: both must be unchanged relative to each other
			continue
		}
	}
	if failures > 0 {
		r.Class("history-with-failed-import")
	}
}

func TestC17(t *testing.T) {
	r := vlib.Start(t, "C17")
	defer r.Finish()
	r.Extra("rule", "universe of 12 small files with planted collisions (message/enum/enum-value/service names, name vs package component, extension numbers where the first or the second extension of the file collides, "+
		"a colliding element that comes after the file's extensions); every history of imports of length <=L over the universe (L=3 quick, 4 thorough; exhaustive) x two descriptor kinds (linker results with source, "+
		"descriptors built by protodesc) x two reporters (the default, which fails on the first error, and one that accepts every error); after every failed Import: Lookup/LookupExtension over the whole universe unchanged, the same Import fails again, and a replica table built by the same history without the failed "+
		"attempts behaves identically on every follow-up import. non-trivial = history containing >=1 failing import; distinct = (kind, history)")
	r.Extra("assumptions", []string{"Symbols.Import is deterministic and sequential here, so two tables built by the same successful prefix are equivalent",
		"the dependency (base.proto) is already in the table, so its import is not part of a failed attempt"})
	w, err := buildC17World()
	if err != nil {
		t.Fatal(err)
	}
	var files []string
	for _, n := range w.names {
		if n != "base.proto" {
			files = append(files, n)
		}
	}
	L := r.N(3, 4)
	nf := len(files)
	total := 1
	for i := 0; i < L; i++ {
		total *= nf
	}
	r.Extra("exhaustive", true)
	for _, kind := range []string{"result", "desc"} {
		kind := kind
		r.Par(total, func(code int) {
			// histories of length 1..L: a code enumerates length-L sequences; prefixes are covered by runHistory's step loop
			hist := make([]string, L)
			c := code
			distinctFiles := map[string]bool{}
			for i := 0; i < L; i++ {
				hist[i] = files[c%nf]
				distinctFiles[hist[i]] = true
				c /= nf
			}
			id := fmt.Sprintf("%s/%s", kind, strings.Join(hist, ","))
			if !r.Want(id) {
				return
			}
			key := ""
			if len(distinctFiles) >= 2 {
				key = id
			}
			r.Eval(key)
			w.runHistory(r, id, kind, hist, false)
			w.runHistory(r, id+"/collect-all", kind, hist, true)
			if code == 17 {
				r.Sample("history", map[string]any{"kind": kind, "imports": hist})
			}
		})
	}
}
