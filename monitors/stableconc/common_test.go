package stableconc

import (
	"context"
	"fmt"
	"sort"
	"strings"
	"sync"
	"time"

	"github.com/bufbuild/protocompile/internal/verifmon/gen"
	"github.com/bufbuild/protocompile/internal/verifmon/vlib"
)

// importGraph is a digraph over files f0..f(n-1); edge i->j means fi imports fj.
// An edge to a node >= n means "imports a file that does not exist".
type importGraph struct {
	n   int
	adj [][]int
}

func (g importGraph) String() string {
	var sb strings.Builder
	for i, a := range g.adj {
		fmt.Fprintf(&sb, "%d->%v;", i, a)
	}
	return sb.String()
}

func graphFromBits(n int, bits uint64, self bool) importGraph {
	g := importGraph{n: n, adj: make([][]int, n)}
	k := 0
	for i := 0; i < n; i++ {
		for j := 0; j < n; j++ {
			if i == j && !self {
				continue
			}
			if bits>>uint(k)&1 == 1 {
				g.adj[i] = append(g.adj[i], j)
			}
			k++
		}
	}
	return g
}

func fileName(prefix string, i int) string { return fmt.Sprintf("%sf%d.proto", prefix, i) }

// sources renders the graph as proto files (each defines one message; no
// cross-file references, so the only possible errors are import errors).
func (g importGraph) sources(prefix string) map[string]string {
	src := map[string]string{}
	for i := 0; i < g.n; i++ {
		var sb strings.Builder
		sb.WriteString("syntax = \"proto3\";\n")
		fmt.Fprintf(&sb, "package p%d;\n", i)
		for _, j := range g.adj[i] {
			fmt.Fprintf(&sb, "import \"%s\";\n", fileName(prefix, j))
		}
		fmt.Fprintf(&sb, "message M%d { int32 x = 1; }\n", i)
		src[fileName(prefix, i)] = sb.String()
	}
	return src
}

// reach returns the existing nodes reachable from roots (through existing nodes).
func (g importGraph) reach(roots []int) map[int]bool {
	seen := map[int]bool{}
	var dfs func(v int)
	dfs = func(v int) {
		if v >= g.n || seen[v] {
			return
		}
		seen[v] = true
		for _, w := range g.adj[v] {
			dfs(w)
		}
	}
	for _, r := range roots {
		dfs(r)
	}
	return seen
}

// cycleReachable reports whether some cycle (self-loops included) lies in the
// part of the graph reachable from roots.
func (g importGraph) cycleReachable(roots []int) bool {
	r := g.reach(roots)
	state := map[int]int{}
	var dfs func(v int) bool
	dfs = func(v int) bool {
		if v >= g.n {
			return false
		}
		switch state[v] {
		case 1:
			return true
		case 2:
			return false
		}
		state[v] = 1
		for _, w := range g.adj[v] {
			if dfs(w) {
				return true
			}
		}
		state[v] = 2
		return false
	}
	for v := range r {
		if dfs(v) {
			return true
		}
	}
	return false
}

// missingReachable reports whether a reachable file imports a missing file.
func (g importGraph) missingReachable(roots []int) bool {
	for v := range g.reach(roots) {
		for _, w := range g.adj[v] {
			if w >= g.n {
				return true
			}
		}
	}
	return false
}

func (g importGraph) hasEdge(a, b int) bool {
	if a >= g.n {
		return false
	}
	for _, w := range g.adj[a] {
		if w == b {
			return true
		}
	}
	return false
}

// compileResult is what one (possibly hanging) compile call did.
type compileResult struct {
	out      *gen.Outcome
	returned bool
	stuck    bool   // quiescence criterion met: it will never return
	dump     string // goroutine dump when not returned
}

var hangWait = 20 * time.Second

// runCompile runs a compilation on its own goroutine. If it has not returned
// after a generous wait, the logical quiescence criterion decides: all
// goroutines with compiler frames parked and two dumps identical => stuck
// (a deadlock); otherwise the case is inconclusive.
func runCompile(f func() *gen.Outcome) compileResult {
	done := make(chan *gen.Outcome, 1)
	go func() { done <- f() }()
	select {
	case o := <-done:
		return compileResult{out: o, returned: true}
	case <-time.After(hangWait):
	}
	stuck, dump := vlib.StableAndParked("protocompile.(*executor)", 300*time.Millisecond)
	if !stuck {
		stuck, dump = vlib.StableAndParked("protocompile.(*task)", 300*time.Millisecond)
	}
	// one more chance: it may have just returned
	select {
	case o := <-done:
		return compileResult{out: o, returned: true}
	default:
	}
	return compileResult{stuck: stuck, dump: dump}
}

// permitMonitor checks the semaphore accounting of one compilation from the
// hook events: 0 <= held <= par at every event, held == 0 at the end, and
// every result completed or failed exactly once.
type permitMonitor struct {
	mu       sync.Mutex
	par      int64
	held     int64
	maxHeld  int64
	minHeld  int64
	finished map[string]int
	viol     string
}

func (pm *permitMonitor) on(site, key string) {
	switch site {
	case "sema.acquired":
		pm.held++
		if pm.held > pm.maxHeld {
			pm.maxHeld = pm.held
		}
		if pm.held > pm.par && pm.viol == "" {
			pm.viol = fmt.Sprintf("more permits held (%d) than MaxParallelism (%d) at %s %s", pm.held, pm.par, site, key)
		}
	case "sema.release":
		pm.held--
		if pm.held < pm.minHeld {
			pm.minHeld = pm.held
		}
		if pm.held < 0 && pm.viol == "" {
			pm.viol = fmt.Sprintf("permit released that was not held (held=%d) at %s", pm.held, key)
		}
	case "result.complete", "result.fail":
		pm.finished[key]++
		if pm.finished[key] > 1 && pm.viol == "" {
			pm.viol = fmt.Sprintf("result of %s finished %d times", key, pm.finished[key])
		}
	}
}

func sortedInts(m map[int]bool) []int {
	var out []int
	for k := range m {
		out = append(out, k)
	}
	sort.Ints(out)
	return out
}

var _ = context.Background
