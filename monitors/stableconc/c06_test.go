package stableconc

import (
	"context"
	"fmt"
	"regexp"
	"strings"
	"sync"
	"sync/atomic"
	"testing"
	"time"

	"github.com/bufbuild/protocompile"
	"github.com/bufbuild/protocompile/internal/verifmon/gen"
	"github.com/bufbuild/protocompile/internal/verifmon/vlib"
)

// C06 — compilation always terminates and reports exactly the import cycles.

var cycleRe = regexp.MustCompile(`cycle found in imports: ("[^"]*"(?: -> "[^"]*")+)`)

var caseCtr atomic.Int64

type c06Stats struct {
	mu            sync.Mutex
	interleavings map[uint64]struct{}
	maxHeld       int64
	hangs         atomic.Int32
}

// checkCycleCase runs one (graph, requested, parallelism, perturbation) case.
func checkCycleCase(r *vlib.Run, p *vlib.Perturber, st *c06Stats, id string, g importGraph, roots []int, par int, defaultReporter bool) {
	if st.hangs.Load() >= 12 {
		// every hang costs a long wait and leaves goroutines behind; a dozen witnesses settle the verdict
		r.Class("skipped: a dozen hangs already recorded")
		return
	}
	caseNo := caseCtr.Add(1)
	prefix := fmt.Sprintf("k%d/", caseNo)
	src := g.sources(prefix)
	override := false
	if caseNo%5 == 0 {
		// an overridden descriptor.proto: every file then has one more, implicit, dependency
		if ds, err := gen.DescriptorProtoSource(); err == nil {
			src["google/protobuf/descriptor.proto"] = ds
			override = true
		}
	}
	var names []string
	for _, v := range roots {
		names = append(names, fileName(prefix, v))
	}
	pm := &permitMonitor{par: int64(par), finished: map[string]int{}}
	ct := p.Register(prefix)
	ct.On = pm.on
	defer p.Unregister(prefix)

	wantCycle := g.cycleReachable(roots)
	wantErr := wantCycle || g.missingReachable(roots)
	w := map[string]any{"graph": g.String(), "requested": roots, "parallelism": par, "cycle_reachable": wantCycle, "descriptor_proto_overridden": override}
	if override {
		r.Class("descriptor.proto overridden")
	}
	cls := "acyclic"
	if wantCycle {
		cls = "cyclic"
	}

	res := runCompile(func() *gen.Outcome {
		if defaultReporter {
			c := protocompile.Compiler{Resolver: &protocompile.SourceResolver{Accessor: protocompile.SourceAccessorFromMap(src)}, MaxParallelism: par}
			o := &gen.Outcome{}
			o.Files, o.Err = c.Compile(context.Background(), names...)
			if o.Err != nil {
				o.Errors = []string{o.Err.Error()}
			}
			return o
		}
		return gen.Compile(src, names, gen.Opts{Par: par, NoStdlib: true})
	})
	key := ""
	if len(g.reach(roots)) >= 2 || wantCycle {
		key = fmt.Sprintf("%s|%v|%d|%v", g.String(), roots, par, defaultReporter)
	}
	r.Eval(key)
	r.Class(cls)
	if !res.returned {
		st.hangs.Add(1)
		if res.stuck {
			w["goroutines"] = res.dump
			r.Violation("c06.deadlock", cls+" graph: Compile never returns (all compiler goroutines parked, dumps identical)", id, w)
		} else {
			r.Inconclusive("compile did not return within the watchdog but the quiescence criterion is not met: " + id)
		}
		return
	}
	out := res.out
	w["errors"] = out.Errors
	if out.Panic != nil {
		w["panic"] = fmt.Sprint(out.Panic)
		r.Violation("c06.panic", cls+" graph: panic", id, w)
		return
	}
	gotCycle := false
	for _, e := range out.Errors {
		m := cycleRe.FindStringSubmatch(e)
		if m == nil {
			continue
		}
		gotCycle = true
		// the reported sequence must be a walk along real import edges that closes a cycle
		var seq []int
		ok := true
		for _, part := range strings.Split(m[1], " -> ") {
			name := strings.Trim(part, `"`)
			idx := -1
			for v := 0; v < g.n; v++ {
				if fileName(prefix, v) == name {
					idx = v
				}
			}
			if idx < 0 {
				ok = false
			}
			seq = append(seq, idx)
		}
		for i := 0; ok && i+1 < len(seq); i++ {
			if !g.hasEdge(seq[i], seq[i+1]) {
				ok = false
			}
		}
		if ok {
			closes := false
			for _, v := range seq[:len(seq)-1] {
				if v == seq[len(seq)-1] {
					closes = true
				}
			}
			ok = closes
		}
		if !ok {
			w["reported"] = e
			r.Violation("c06.bogus-cycle-path", "reported import sequence is not a closed walk of real import edges", id, w)
		}
	}
	switch {
	case wantCycle && !gotCycle:
		sig := "a reachable import cycle was not reported (every reachable import exists)"
		if g.missingReachable(roots) {
			sig = "a reachable import cycle was not reported; a reachable file also imports a missing file and the compilation failed with that error"
		}
		r.Violation("c06.cycle-not-reported", sig, id, w)
	case !wantCycle && gotCycle:
		r.Violation("c06.spurious-cycle", "cycle error on a graph without a reachable cycle", id, w)
	}
	if wantErr && out.Err == nil {
		r.Violation("c06.error-lost", cls+" graph: Compile returned nil although an import error is reachable", id, w)
	}
	if !wantErr && out.Err != nil {
		r.Violation("c06.spurious-failure", "acyclic complete graph failed: "+gen.ClassifyErr(out.ErrSummary()), id, w)
	}
	// hook-fed invariants (only if the sites were reached)
	n, hash, counts := ct.Snapshot()
	if n > 0 {
		st.mu.Lock()
		st.interleavings[hash] = struct{}{}
		if pm.maxHeld > st.maxHeld {
			st.maxHeld = pm.maxHeld
		}
		st.mu.Unlock()
		if pm.viol != "" {
			w["trace_counts"] = counts
			r.Violation("c06.permit-accounting", strings.SplitN(pm.viol, " (", 2)[0], id, w)
		} else if counts["sema.acquired"] != counts["sema.release"] {
			// Compile may return while tasks are still unwinding (the deferred release runs after the
			// result is published), so the balance is only observable a little later; other cases run
			// in this process, so an imbalance cannot be attributed with certainty: it is recorded, not decided.
			balanced := false
			for k := 0; k < 200 && !balanced; k++ {
				time.Sleep(time.Millisecond)
				_, _, c2 := ct.Snapshot()
				balanced = c2["sema.acquired"] == c2["sema.release"]
			}
			if balanced {
				r.Class("permits-balanced-after-unwind")
			} else {
				r.Class("permit-balance-undecided")
			}
		} else {
			r.Class("permits-balanced-at-return")
		}
	}
}

func nonEmptySubsets(n int) [][]int {
	var out [][]int
	for m := 1; m < 1<<uint(n); m++ {
		var s []int
		for i := 0; i < n; i++ {
			if m>>uint(i)&1 == 1 {
				s = append(s, i)
			}
		}
		out = append(out, s)
	}
	return out
}

func TestC06(t *testing.T) {
	r := vlib.Start(t, "C06")
	defer r.Finish()
	p := vlib.InstallPerturber()
	st := &c06Stats{interleavings: map[uint64]struct{}{}}
	r.Extra("rule", "import digraphs: ALL on <=3 files incl. self-imports (2+16+512) x ALL non-empty requested subsets x MaxParallelism {1,2,4,16}; all 4096 on 4 files without self-imports "+
		"(x all subsets x all parallelism in thorough; 2 subsets x 1 parallelism sampled in quick); variants with an import of a missing file; random graphs on 5-12 files with long cycles (thorough); "+
		"each run under schedule perturbation at the compiler.go hook points (focus site rotates) and the race detector. non-trivial = >=2 reachable files or a reachable cycle; distinct = (graph, requested, parallelism)")
	r.Extra("assumptions", []string{"reference: DFS cycle/reachability analysis of the generated graph", "non-termination is decided by the logical quiescence criterion, never by elapsed time"})
	if !vlib.HooksCompiledIn() {
		r.Inconclusive("hooks are not compiled in (build without -tags verif)")
	}
	pars := []int{1, 2, 4, 16}
	focus := []string{"asFile.afterSetBlockedOn", "asFile.afterCompileDep", "asFile.afterRelease", "asFile.depsResolved", "doCompile.beforeAcquire", "result.fail", ""}
	seeds := r.N(1, 6)

	type space struct {
		n    int
		self bool
	}
	for _, sp := range []space{{1, true}, {2, true}, {3, true}, {4, false}} {
		nb := sp.n * sp.n
		if !sp.self {
			nb = sp.n * (sp.n - 1)
		}
		subsets := nonEmptySubsets(sp.n)
		full := sp.n <= 3 || !r.Quick()
		r.Par(1<<uint(nb), func(bits int) {
			g := graphFromBits(sp.n, uint64(bits), sp.self)
			rng := r.Rng(fmt.Sprintf("c06/%d/%v/%d", sp.n, sp.self, bits))
			for si, roots := range subsets {
				if !full && si != rng.Intn(len(subsets)) && si != len(subsets)-1 {
					continue
				}
				for pi, par := range pars {
					if !full && pi != (bits+si)%len(pars) {
						continue
					}
					for s := 0; s < seeds; s++ {
						id := fmt.Sprintf("ex/n%d-%v-%x/%v/p%d/s%d", sp.n, sp.self, bits, roots, par, s)
						if !r.Want(id) {
							continue
						}
						p.SetSeed(r.Seed*1000003+uint64(bits*31+si*7+pi+s*131), focus[(bits+si+pi+s)%len(focus)])
						rr := roots
						if (bits+s)%2 == 1 {
							rr = append([]int(nil), roots...)
							vlib.Shuffle(rng, rr)
						}
						reps := 1
						if r.Replaying() {
							reps = r.ReplayRep
						}
						for k := 0; k < reps; k++ {
							checkCycleCase(r, p, st, id, g, rr, par, (bits+si+pi)%11 == 0)
						}
					}
				}
			}
		})
	}
	// graphs with an import of a missing file, and random larger graphs
	nRand := r.N(1500, 40000)
	r.Par(nRand, func(i int) {
		id := fmt.Sprintf("rand/%d", i)
		if !r.Want(id) {
			return
		}
		rng := r.Rng(id)
		n := rng.Range(2, 5)
		if i%3 == 0 {
			n = rng.Range(5, 12)
		}
		g := importGraph{n: n, adj: make([][]int, n)}
		dens := 0.15 + 0.35*rng.Float64()
		if i%3 == 0 {
			dens = 0.05 + 0.2*rng.Float64()
		}
		for a := 0; a < n; a++ {
			for b := 0; b < n; b++ {
				if rng.Chance(dens) && (a != b || rng.Chance(0.3)) {
					g.adj[a] = append(g.adj[a], b)
				}
			}
			if rng.Chance(0.15) {
				g.adj[a] = append(g.adj[a], n+rng.Intn(2)) // missing file
				vlib.Shuffle(rng, g.adj[a])
			}
		}
		if i%5 == 0 {
			// plant one long cycle
			perm := rng.Perm(n)
			for k := range perm {
				a, b := perm[k], perm[(k+1)%n]
				if !g.hasEdge(a, b) {
					g.adj[a] = append(g.adj[a], b)
				}
			}
		}
		nr := rng.Range(1, n)
		roots := rng.Perm(n)[:nr]
		par := pars[rng.Intn(len(pars))]
		p.SetSeed(r.Seed*7919+uint64(i), focus[i%len(focus)])
		reps := 1
		if r.Replaying() {
			reps = r.ReplayRep
		}
		for k := 0; k < reps; k++ {
			checkCycleCase(r, p, st, id, g, roots, par, i%13 == 0)
		}
		if i == 0 {
			r.Sample("random-graph", map[string]any{"graph": g.String(), "requested": roots, "parallelism": par})
		}
	})
	r.Sample("exhaustive-graph", map[string]any{"graph": graphFromBits(3, 0b101010110, true).String(), "requested": []int{0, 2}, "parallelism": 2})
	st.mu.Lock()
	r.Extra("distinct_interleavings_observed", len(st.interleavings))
	r.Extra("max_permits_held_observed", st.maxHeld)
	st.mu.Unlock()
	r.Extra("hook_sites_reached", p.SiteCounts())
}
