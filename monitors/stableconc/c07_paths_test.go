package stableconc

import (
	"context"
	"errors"
	"fmt"
	"io"
	"io/fs"
	"strings"
	"sync/atomic"

	"github.com/bufbuild/protocompile"
	"github.com/bufbuild/protocompile/internal/verifmon/gen"
	"github.com/bufbuild/protocompile/internal/verifmon/vlib"
)

// Import-path family of C07: a SourceResolver with several ImportPaths and an accessor that fails (with an
// error that is NOT "file does not exist", or with a panic) for one (import path, file) pair. The accessor
// records whether the fault actually fired; a fault that fired must surface: Compile returns an error that
// wraps the injected error, or a PanicError carrying the panic value. A later import path that also has a
// file of that name must not hide the failure.
func runImportPathCase(r *vlib.Run, p *vlib.Perturber, id string, rng *vlib.RNG, par int) {
	c07Mu.Lock()
	defer c07Mu.Unlock()
	graphs := c07Graphs()
	gn := []string{"chain4", "diamond", "fanout6", "single"}[rng.Intn(4)]
	g := graphs[gn]
	src := g.sources("")
	paths := []string{"inc1", "inc2", "inc3"}[:rng.Range(2, 3)]
	files := map[string]string{}
	home := map[string]int{}
	for i := 0; i < g.n; i++ {
		f := fileName("", i)
		h := rng.Intn(len(paths))
		home[f] = h
		files[paths[h]+"/"+f] = src[f]
		for later := h + 1; later < len(paths); later++ {
			if rng.Chance(0.5) {
				files[paths[later]+"/"+f] = src[f] // a shadowed copy further down the search path
			}
		}
	}
	victim := fileName("", rng.Intn(g.n))
	at := rng.Intn(home[victim] + 1) // reached: every earlier path reports "does not exist"
	faultPath := paths[at] + "/" + victim
	kind := []string{"error", "permission-error", "panic"}[rng.Intn(3)]
	injected := fmt.Errorf("injected-accessor-error-for-%s", faultPath)
	if kind == "permission-error" {
		injected = &fs.PathError{Op: "open", Path: faultPath, Err: fs.ErrPermission}
	}
	pv := &panicValue{file: faultPath}
	var fired atomic.Int32
	shadowed := false
	for later := at + 1; later < len(paths); later++ {
		if _, ok := files[paths[later]+"/"+victim]; ok {
			shadowed = true
		}
	}
	acc := func(path string) (io.ReadCloser, error) {
		path = strings.ReplaceAll(path, "\\", "/")
		if path == faultPath {
			fired.Add(1)
			if kind == "panic" {
				panic(pv)
			}
			return nil, injected
		}
		s, ok := files[path]
		if !ok {
			return nil, &fs.PathError{Op: "open", Path: path, Err: fs.ErrNotExist}
		}
		return io.NopCloser(strings.NewReader(s)), nil
	}
	var res protocompile.Resolver = &protocompile.SourceResolver{ImportPaths: paths, Accessor: acc}
	std := rng.Bool()
	if std {
		res = protocompile.WithStandardImports(res)
	}
	ctx, cancel := context.WithCancel(context.Background())
	defer cancel()
	p.SetSeed(rng.Uint64(), []string{"doCompile.afterResolve", "result.fail", "asFile.afterRelease", ""}[rng.Intn(4)])
	names := []string{fileName("", 0)}
	wit := map[string]any{"graph": gn + " " + g.String(), "import_paths": paths, "files_present": gen.SortedNames(files), "fault": kind + " at " + faultPath,
		"later_path_has_a_copy": shadowed, "parallelism": par, "standard_imports": std}
	r.Begin(id, wit)
	rc := runCompile(func() *gen.Outcome { return gen.CompileWith(res, names, gen.Opts{Par: par, Ctx: ctx}) })
	key := fmt.Sprintf("paths|%s|%v|%s|%s|%d", gn, gen.SortedNames(files), kind, faultPath, par)
	r.Eval(key)
	if !rc.returned {
		if rc.stuck {
			wit["goroutines"] = rc.dump
			r.Violation("c07.hang", "import paths, "+kind+": Compile never returns", id, wit)
		} else {
			r.Inconclusive("compile did not return and is not quiescent: " + id)
		}
		return
	}
	out := rc.out
	wit["error"] = fmt.Sprint(out.Err)
	cls := "import-paths:" + kind
	if shadowed {
		cls += "+shadowed-copy"
	}
	switch {
	case out.Panic != nil && !strings.HasPrefix(fmt.Sprint(out.Panic), "PanicError"):
		r.Violation("c07.panic-escapes", "import paths, "+kind+": a panic escaped Compile", id, wit)
	case fired.Load() == 0:
		// the victim is not reachable from the requested file: nothing to decide
		cls = "import-paths:fault-not-reached"
		if out.Err != nil {
			r.Violation("c07.spurious-failure", "import paths: no fault fired but Compile failed: "+gen.ClassifyErr(out.Err.Error()), id, wit)
		}
	case out.Err == nil:
		r.Violation("c07.fault-swallowed", "import paths, "+kind+": Compile returned nil although the accessor failed", id, wit)
	case kind == "panic":
		var pe protocompile.PanicError
		if !errors.As(out.Err, &pe) {
			r.Violation("c07.panic-not-surfaced", "import paths: the returned error is not a PanicError", id, wit)
		} else if pe.Value != pv {
			r.Violation("c07.panic-value-lost", "import paths: PanicError does not carry the panic value", id, wit)
		}
	default:
		if !errors.Is(out.Err, injected) {
			r.Violation("c07.error-not-propagated", "import paths, "+kind+": the returned error does not wrap the injected error", id, wit)
		}
	}
	r.Class(cls)
	leaked, undecided, dump := waitNoLibraryGoroutines()
	if leaked {
		wit["goroutines"] = dump
		r.Violation("c07.goroutine-leak", "import paths, "+kind+": compiler goroutines remain parked after Compile returned", id, wit)
	} else if undecided {
		r.Inconclusive("compiler goroutines still present but not quiescent after the wait: " + id)
	}
}
