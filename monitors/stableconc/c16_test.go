package stableconc

import (
	"context"
	"fmt"
	"strings"
	"sync"
	"sync/atomic"
	"testing"

	"google.golang.org/protobuf/reflect/protoreflect"

	"github.com/bufbuild/protocompile"
	"github.com/bufbuild/protocompile/internal/verifmon/gen"
	"github.com/bufbuild/protocompile/internal/verifmon/vlib"
	"github.com/bufbuild/protocompile/linker"
)

// C16 — shared symbol table: safe concurrent use, same collisions as one compile.

type symUniverse struct {
	src      map[string]string // leaf files (they import base.proto only)
	names    []string
	base     string
	planted  string              // "", "name", "extension" or "package"
	symbols  map[string][]string // full name -> defining files
	extNums  map[int32][]string  // extension number (of base.Ext) -> defining files
	dupFiles [2]string
}

const baseProto = `syntax = "proto2";
package base;
message Ext { extensions 100 to 100000; }
message T { optional int32 v = 1; }
enum E { E_ZERO = 0; E_ONE = 1; }
`

func genUniverse(rng *vlib.RNG, prefix string, k int, planted string) *symUniverse {
	u := &symUniverse{src: map[string]string{}, base: prefix + "base.proto", planted: planted, symbols: map[string][]string{}, extNums: map[int32][]string{}}
	a, b := -1, -1
	if planted != "" {
		a = rng.Intn(k)
		b = (a + 1 + rng.Intn(k-1)) % k
	}
	for i := 0; i < k; i++ {
		name := fmt.Sprintf("%sleaf%d.proto", prefix, i)
		pkg := fmt.Sprintf("q%d", i)
		if rng.Chance(0.4) {
			pkg = fmt.Sprintf("shared.sub%d", i%2) // several files in one package
		}
		var sb strings.Builder
		fmt.Fprintf(&sb, "syntax = \"proto2\";\npackage %s;\nimport \"%s\";\n", pkg, u.base)
		def := func(full string) { u.symbols[full] = append(u.symbols[full], name) }
		nm := rng.Range(1, 3)
		for j := 0; j < nm; j++ {
			mn := fmt.Sprintf("M%d_%d", i, j)
			fmt.Fprintf(&sb, "message %s { optional base.T t = 1; optional int32 f%d = 2; enum In%d { IN%d_%d_A = 0; } }\n", mn, j, j, i, j)
			def(pkg + "." + mn)
			def(fmt.Sprintf("%s.%s.t", pkg, mn))
			def(fmt.Sprintf("%s.%s.f%d", pkg, mn, j))
			def(fmt.Sprintf("%s.%s.In%d", pkg, mn, j))
			def(fmt.Sprintf("%s.%s.IN%d_%d_A", pkg, mn, i, j))
		}
		if rng.Chance(0.4) {
			// a dependency that every compilation gets as a ready-made descriptor (not a result of this compiler)
			full := sb.String()
			sb.Reset()
			sb.WriteString(strings.Replace(full, "import \""+u.base+"\";\n", "import \""+u.base+"\";\nimport \"google/protobuf/descriptor.proto\";\n", 1))
			fmt.Fprintf(&sb, "extend google.protobuf.MessageOptions { optional int32 mo%d = %d; }\n", i, 50000+i)
			def(fmt.Sprintf("%s.mo%d", pkg, i))
		}
		ne := rng.Range(0, 3)
		for j := 0; j < ne; j++ {
			num := int32(1000 + i*100 + j)
			fmt.Fprintf(&sb, "extend base.Ext { optional int32 x%d_%d = %d; }\n", i, j, num)
			def(fmt.Sprintf("%s.x%d_%d", pkg, i, j))
			u.extNums[num] = append(u.extNums[num], name)
		}
		if i == a || i == b {
			u.dupFiles[map[bool]int{true: 0, false: 1}[i == a]] = name
			switch planted {
			case "name":
				// same fully-qualified name in two files that do not import each other
				sb.Reset()
				fmt.Fprintf(&sb, "syntax = \"proto2\";\npackage collide;\nimport \"%s\";\nmessage Dup { optional int32 from%d = 1; }\n", u.base, i)
				delete(u.symbols, "")
				for kname, files := range u.symbols {
					var keep []string
					for _, f := range files {
						if f != name {
							keep = append(keep, f)
						}
					}
					if len(keep) == 0 {
						delete(u.symbols, kname)
					} else {
						u.symbols[kname] = keep
					}
				}
				for num, files := range u.extNums {
					var keep []string
					for _, f := range files {
						if f != name {
							keep = append(keep, f)
						}
					}
					if len(keep) == 0 {
						delete(u.extNums, num)
					} else {
						u.extNums[num] = keep
					}
				}
				def("collide.Dup")
				def(fmt.Sprintf("collide.Dup.from%d", i))
			case "package":
				// a message whose full name is the package of another file (either may reach the table first)
				sb.Reset()
				if i == a {
					fmt.Fprintf(&sb, "syntax = \"proto2\";\npackage collide.sub;\nimport \"%s\";\nmessage InSub%d { optional int32 v = 1; }\n", u.base, i)
				} else {
					fmt.Fprintf(&sb, "syntax = \"proto2\";\npackage collide;\nimport \"%s\";\nmessage sub { optional int32 from%d = 1; }\n", u.base, i)
				}
				for kname, files := range u.symbols {
					var keep []string
					for _, f := range files {
						if f != name {
							keep = append(keep, f)
						}
					}
					if len(keep) == 0 {
						delete(u.symbols, kname)
					} else {
						u.symbols[kname] = keep
					}
				}
				for num, files := range u.extNums {
					var keep []string
					for _, f := range files {
						if f != name {
							keep = append(keep, f)
						}
					}
					if len(keep) == 0 {
						delete(u.extNums, num)
					} else {
						u.extNums[num] = keep
					}
				}
				def("collide.sub")
			case "extension":
				fmt.Fprintf(&sb, "extend base.Ext { optional string dupext%d = 77777; }\n", i)
				def(fmt.Sprintf("%s.dupext%d", pkg, i))
				u.extNums[77777] = append(u.extNums[77777], name)
			}
		}
		u.src[name] = sb.String()
		u.names = append(u.names, name)
	}
	return u
}

// compileBase compiles base.proto once, importing it into sym.
func compileBase(u *symUniverse, sym *linker.Symbols) (linker.File, error) {
	out := gen.Compile(map[string]string{u.base: baseProto}, []string{u.base}, gen.Opts{Symbols: sym, NoStdlib: true})
	if !out.OK() {
		return nil, fmt.Errorf("base: %s", out.ErrSummary())
	}
	return out.Files[0], nil
}

func (u *symUniverse) resolver(base linker.File) protocompile.Resolver {
	// google/protobuf/*.proto come from the standard imports: descriptors that are not results of this compiler
	return protocompile.WithStandardImports(protocompile.ResolverFunc(func(name string) (protocompile.SearchResult, error) {
		if name == u.base {
			// the already linked dependency OBJECT is shared between compilations
			return protocompile.SearchResult{Desc: base}, nil
		}
		s, ok := u.src[name]
		if !ok {
			return protocompile.SearchResult{}, fmt.Errorf("file not found: %s", name)
		}
		return protocompile.SearchResult{Source: strings.NewReader(s)}, nil
	}))
}

func collisionSeen(outs []*gen.Outcome) (bool, []string) {
	seen := false
	var msgs []string
	for _, o := range outs {
		for _, e := range o.Errors {
			if strings.Contains(e, "already defined") {
				seen = true
			}
			msgs = append(msgs, e)
		}
		if o.Err != nil && len(o.Errors) == 0 {
			msgs = append(msgs, o.Err.Error())
			if strings.Contains(o.Err.Error(), "already defined") {
				seen = true
			}
		}
	}
	return seen, msgs
}

func TestC16(t *testing.T) {
	r := vlib.Start(t, "C16")
	defer r.Finish()
	p := vlib.InstallPerturber()
	r.Extra("rule", "universes of 4-10 leaf files importing one shared, already linked base file (the dependency object is shared between compilations); in 1/4 of the universes a duplicate fully-qualified name, "+
		"in 1/4 a duplicate (extendee, number), in 1/4 a message whose full name is the package of another file is planted in two files that do not import each other. Joint = one compilation of all leaves with a fresh table; split = every leaf partitioned into 1-4 compilations "+
		"sharing one table, run sequentially or concurrently, while 4-16 goroutines call Lookup/LookupExtension on names of the universe (defined, not yet imported, never defined, package prefixes); "+
		"race detector + perturbation at the symbols.go hook points. non-trivial = universe with >=2 compilations sharing the table; distinct = (universe, partition, mode)")
	r.Extra("assumptions", []string{"collision truth is known by construction", "a data race in linker/symbols.go refutes 'usable from any number of goroutines' (reported by the driver from the race log)"})
	n := r.N(150, 4000)
	var lookups atomic.Int64
	r.Par(n, func(i int) {
		id := fmt.Sprintf("u/%d", i)
		if !r.Want(id) {
			return
		}
		reps := 1
		if r.Replaying() {
			reps = r.ReplayRep
		}
		for rep := 0; rep < reps; rep++ {
			rng := r.Rng(id)
			prefix := fmt.Sprintf("k%d/", caseCtr.Add(1))
			planted := []string{"", "name", "extension", "package"}[i%4]
			k := rng.Range(4, 10)
			u := genUniverse(rng, prefix, k, planted)
			p.SetSeed(r.Seed*131+uint64(i+rep*7919), []string{"symbols.importPackage.beforeUpgrade", "symbols.import.afterImportedCheck", "symbols.importResult.afterCommit", "symbols.lookup.afterGetPackage", "symbols.addExtension.enter", ""}[(i+rep)%6])
			w := map[string]any{"sources": u.src, "planted": planted}

			// joint
			symJ := &linker.Symbols{}
			baseJ, err := compileBase(u, symJ)
			if err != nil {
				r.Inconclusive(err.Error())
				return
			}
			joint := gen.CompileWith(u.resolver(baseJ), u.names, gen.Opts{Par: 1 + i%8, Symbols: symJ})
			jc, jmsgs := collisionSeen([]*gen.Outcome{joint})
			w["joint_errors"] = jmsgs
			if jc != (planted != "") {
				r.Violation("c16.joint-collision-wrong", fmt.Sprintf("planted=%q but joint compilation collision=%v", planted, jc), id, w)
			}

			// split
			parts := rng.Range(1, 4)
			groups := make([][]string, parts)
			for _, nme := range u.names {
				g := rng.Intn(parts)
				groups[g] = append(groups[g], nme)
			}
			if planted != "" && parts > 1 && i%2 == 0 {
				// force the two colliding files into different compilations
				groups = make([][]string, parts)
				for _, nme := range u.names {
					g := rng.Intn(parts)
					if nme == u.dupFiles[0] {
						g = 0
					} else if nme == u.dupFiles[1] {
						g = 1
					}
					groups[g] = append(groups[g], nme)
				}
			}
			concurrent := i%2 == 1
			symS := &linker.Symbols{}
			baseS, err := compileBase(u, symS)
			if err != nil {
				r.Inconclusive(err.Error())
				return
			}
			outs := make([]*gen.Outcome, parts)
			stop := make(chan struct{})
			var lwg sync.WaitGroup
			var bad atomic.Pointer[string]
			nl := 4 + rng.Intn(13)
			var universe []string
			for s := range u.symbols {
				universe = append(universe, s)
			}
			universe = append(universe, "base.Ext", "base.T", "base", "shared", "shared.sub0", "q1", "collide", "never.Defined", "q0.Nope", "")
			for l := 0; l < nl; l++ {
				lrng := rng.Fork(fmt.Sprint("lookup", l))
				lwg.Add(1)
				go func() {
					defer lwg.Done()
					for {
						select {
						case <-stop:
							return
						default:
						}
						nm := universe[lrng.Intn(len(universe))]
						span := symS.Lookup(protoreflect.FullName(nm))
						lookups.Add(1)
						if span != nil {
							file := span.Start().Filename
							okf := false
							for _, f := range u.symbols[nm] {
								if f == file {
									okf = true
								}
							}
							if strings.HasPrefix(nm, "base") || nm == "shared" || strings.HasPrefix(nm, "shared.sub") || nm == "q1" || nm == "collide" {
								okf = true // base symbols and package names: any file of that package
							}
							if !okf {
								m := fmt.Sprintf("Lookup(%q) names file %q which does not define it", nm, file)
								bad.Store(&m)
							}
						} else if nm == "base.T" || nm == "base.Ext" {
							m := fmt.Sprintf("Lookup(%q) = nil although base was imported before the lookups started", nm)
							bad.Store(&m)
						}
						num := protoreflect.FieldNumber(1000 + lrng.Intn(k)*100 + lrng.Intn(3))
						if lrng.Chance(0.2) {
							num = 77777
						}
						xs := symS.LookupExtension("base.Ext", num)
						if xs != nil {
							okf := false
							for _, f := range u.extNums[int32(num)] {
								if f == xs.Start().Filename {
									okf = true
								}
							}
							if !okf {
								m := fmt.Sprintf("LookupExtension(base.Ext, %d) names file %q which does not define it", num, xs.Start().Filename)
								bad.Store(&m)
							}
						}
					}
				}()
			}
			if concurrent {
				var wg sync.WaitGroup
				for gi := range groups {
					if len(groups[gi]) == 0 {
						outs[gi] = &gen.Outcome{}
						continue
					}
					wg.Add(1)
					go func(gi int) {
						defer wg.Done()
						outs[gi] = gen.CompileWith(u.resolver(baseS), groups[gi], gen.Opts{Par: 1 + gi*3, Symbols: symS, Ctx: context.Background()})
					}(gi)
				}
				wg.Wait()
			} else {
				for gi := range groups {
					if len(groups[gi]) == 0 {
						outs[gi] = &gen.Outcome{}
						continue
					}
					outs[gi] = gen.CompileWith(u.resolver(baseS), groups[gi], gen.Opts{Par: 1 + gi*3, Symbols: symS})
				}
			}
			close(stop)
			lwg.Wait()
			sc, smsgs := collisionSeen(outs)
			w["split_errors"] = smsgs
			w["groups"] = groups
			w["concurrent"] = concurrent
			key := ""
			if parts >= 2 {
				key = fmt.Sprintf("%s|%v|%v", gen.SrcKey(u.src)+fmt.Sprint(len(u.src)), groups, concurrent)
				if key[0] == '|' {
					key = id + key
				}
			}
			r.Eval(key)
			if sc != jc {
				mode := "sequential"
				if concurrent {
					mode = "concurrent"
				}
				r.Violation("c16.split-differs-from-joint", fmt.Sprintf("planted=%q: joint collision=%v, %s split collision=%v", planted, jc, mode, sc), id, w)
			}
			for gi, o := range outs {
				if o != nil && o.Panic != nil {
					w["panic"] = fmt.Sprint(o.Panic)
					r.Violation("c16.panic", fmt.Sprintf("compilation %d panicked", gi), id, w)
				}
			}
			if m := bad.Load(); m != nil {
				w["lookup"] = *m
				r.Violation("c16.lookup-implausible", strings.SplitN(*m, "(", 2)[0]+" result names a file that does not define the symbol", id, w)
			}
			// after everything: every symbol of files that were imported successfully is found
			r.Class("planted:" + planted)
			if concurrent {
				r.Class("mode:concurrent")
			} else {
				r.Class("mode:sequential")
			}
		}
		if i == 1 {
			r.Sample("universe", map[string]any{"case": id})
		}
	})
	r.Extra("concurrent_lookups_performed", lookups.Load())
	r.Extra("hook_sites_reached", p.SiteCounts())
}
