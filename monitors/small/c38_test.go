package small

import (
	"fmt"
	"strings"
	"sync"
	"sync/atomic"
	"testing"
	"time"

	"github.com/anishathalye/porcupine"

	"github.com/bufbuild/protocompile/internal/intern"
	"github.com/bufbuild/protocompile/internal/verifmon/vlib"
)

// C38 — string interning is a bijection, also under concurrency.

const char6 = "0123456789abcdefghijklmnopqrstuvwxyzABCDEFGHIJKLMNOPQRSTUVWXYZ_."

func inlineable(s string) bool {
	if s == "" {
		return true
	}
	if len(s) > 5 || strings.HasSuffix(s, ".") {
		return false
	}
	for i := 0; i < len(s); i++ {
		if strings.IndexByte(char6, s[i]) < 0 {
			return false
		}
	}
	return true
}

type internOp struct {
	Query bool
	S     string
}
type internOut struct {
	ID intern.ID
	OK bool
}

var internModel = porcupine.Model{
	Partition: func(h []porcupine.Operation) [][]porcupine.Operation {
		m := map[string][]porcupine.Operation{}
		var order []string
		for _, op := range h {
			s := op.Input.(internOp).S
			if _, ok := m[s]; !ok {
				order = append(order, s)
			}
			m[s] = append(m[s], op)
		}
		out := make([][]porcupine.Operation, 0, len(m))
		for _, s := range order {
			out = append(out, m[s])
		}
		return out
	},
	Init: func() any { return intern.ID(0) },
	Step: func(st, in, out any) (bool, any) {
		cur := st.(intern.ID)
		op := in.(internOp)
		o := out.(internOut)
		if op.Query {
			if o.OK {
				return cur != 0 && o.ID == cur, cur
			}
			return cur == 0, cur
		}
		if cur == 0 {
			return o.ID != 0, o.ID
		}
		return o.ID == cur, cur
	},
	Equal: func(a, b any) bool { return a.(intern.ID) == b.(intern.ID) },
	DescribeOperation: func(in, out any) string {
		return fmt.Sprintf("%+v -> %+v", in, out)
	},
}

func TestC38(t *testing.T) {
	r := vlib.Start(t, "C38")
	defer r.Finish()
	r.Extra("rule", "inline domain: every string of length 1..L over the 64-symbol char6 alphabet without trailing '.' (L=3 quick + 2M sampled of length 4-5; L=5 thorough, exhaustive) "+
		"plus near-misses; sequential random multisets vs a reference map; concurrent histories (8-64 goroutines, few distinct strings) recorded at the Intern/Query/Value boundary and "+
		"checked with porcupine per string. non-trivial = distinct string (inline part) or distinct history with >=2 goroutines touching one string")

	// ---------- inline encoding: exhaustive ----------
	L := r.N(3, 5)
	var tab intern.Table
	top := 64 * 64
	r.Par(top, func(idx int) {
		// first two symbols fixed by idx; enumerate the rest.
		var n int64
		buf := make([]byte, 0, 5)
		var rec func(depth int)
		var local intern.Table // strings that are not inlineable go to a per-slice table (keeps memory bounded)
		check := func(s string) {
			n++
			inl := inlineable(s)
			tab := &tab
			if !inl {
				tab = &local
			}
			id := tab.Intern(s)
			v := tab.Value(id)
			q, ok := tab.Query(s)
			switch {
			case v != s:
				r.Violation("intern.value-roundtrip", "inline domain: Value(Intern(s)) != s", "inline/"+s, map[string]any{"s": s, "id": int32(id), "value": v})
			case !ok || q != id:
				r.Violation("intern.query", "inline domain: Query disagrees with Intern", "inline/"+s, map[string]any{"s": s, "id": int32(id), "query_id": int32(q), "ok": ok})
			case inl && id >= 0:
				r.Violation("intern.inline-sign", "inlineable non-empty string got a non-negative id", "inline/"+s, map[string]any{"s": s, "id": int32(id)})
			case !inl && id <= 0:
				r.Violation("intern.inline-sign", "non-inlineable string got a non-positive id", "inline/"+s, map[string]any{"s": s, "id": int32(id)})
			}
		}
		rec = func(depth int) {
			s := string(buf)
			if r.Want("inline/" + s) {
				check(s)
			}
			if depth == L {
				return
			}
			for i := 0; i < 64; i++ {
				buf = append(buf, char6[i])
				rec(depth + 1)
				buf = buf[:len(buf)-1]
			}
		}
		a, b := char6[idx/64], char6[idx%64]
		if idx%64 == 0 {
			buf = append(buf[:0], a)
			if r.Want("inline/" + string(buf)) {
				check(string(buf))
			}
		}
		buf = append(buf[:0], a, b)
		rec(2)
		r.EvalN(n, n)
	})
	if L >= 5 {
		r.Extra("exhaustive", true)
	}
	// injectivity of the inline code over the enumerated domain follows from
	// Value(Intern(s)) == s for every s; in addition ids of distinct sampled
	// strings are compared directly below.
	if r.Quick() {
		nS := 2000000
		const chunk = 10000
		r.Par(nS/chunk, func(c int) {
			rng := r.Rng(fmt.Sprintf("c38/sample/%d", c))
			var n int64
			for j := 0; j < chunk; j++ {
				l := rng.Range(4, 5)
				b := make([]byte, l)
				for k := range b {
					b[k] = char6[rng.Intn(64)]
				}
				s := string(b)
				id := tab.Intern(s)
				if v := tab.Value(id); v != s {
					r.Violation("intern.value-roundtrip", "inline domain: Value(Intern(s)) != s", "sample/"+s, map[string]any{"s": s, "id": int32(id), "value": v})
				}
				if inlineable(s) != (id < 0) {
					r.Violation("intern.inline-sign", "inline/non-inline sign mismatch", "sample/"+s, map[string]any{"s": s, "id": int32(id)})
				}
				n++
			}
			r.EvalN(n, 0)
		})
	}
	// near misses: length 6, trailing '.', non-alphabet byte, and the empty string
	if r.Mine(0) {
		if id := tab.Intern(""); id != 0 || tab.Value(0) != "" {
			r.Violation("intern.empty", "empty string is not id 0", "near/empty", map[string]any{"id": int32(id)})
		}
		rng := r.Rng("c38/near")
		for i := 0; i < 20000; i++ {
			var s string
			switch i % 5 {
			case 0:
				b := make([]byte, 6)
				for k := range b {
					b[k] = char6[rng.Intn(64)]
				}
				s = string(b)
			case 1:
				b := make([]byte, rng.Range(1, 5))
				for k := range b {
					b[k] = char6[rng.Intn(64)]
				}
				b[len(b)-1] = '.'
				s = string(b)
			case 2:
				b := make([]byte, rng.Range(1, 5))
				for k := range b {
					b[k] = char6[rng.Intn(64)]
				}
				b[rng.Intn(len(b))] = []byte{' ', '-', 0, 0xff, '$', '/'}[rng.Intn(6)]
				s = string(b)
			case 3:
				// high-bit twins: an inlineable string with bit 7 set on some bytes (any byte outside the alphabet
				// must disable the inline encoding, whatever its low seven bits are)
				b := make([]byte, rng.Range(1, 5))
				for k := range b {
					b[k] = char6[rng.Intn(64)]
				}
				if b[len(b)-1] == '.' {
					b[len(b)-1] = 'a'
				}
				for n := rng.Range(1, len(b)); n > 0; n-- {
					b[rng.Intn(len(b))] |= 0x80
				}
				s = string(b)
			default:
				s = strings.Repeat(".", rng.Range(1, 7))
			}
			var fresh intern.Table
			_, okBefore := fresh.Query(s)
			id := fresh.Intern(s)
			id2 := fresh.Intern(s)
			q, okAfter := fresh.Query(s)
			w := map[string]any{"s": s, "id": int32(id)}
			switch {
			case okBefore:
				r.Violation("intern.query", "Query reports a never-interned non-inlineable string as present", "near/"+s, w)
			case id <= 0:
				r.Violation("intern.inline-sign", "non-inlineable string got a non-positive id", "near/"+s, w)
			case id2 != id || !okAfter || q != id:
				r.Violation("intern.query", "second Intern/Query disagrees with first Intern", "near/"+s, w)
			case fresh.Value(id) != s:
				r.Violation("intern.value-roundtrip", "Value(Intern(s)) != s", "near/"+s, w)
			}
			r.Eval("near/" + s)
		}
	}

	// every string of length 1-2 over the alphabet and its high-bit twins: ids of different strings differ, values round-trip
	if r.Mine(1) {
		var tw intern.Table
		seen := map[intern.ID]string{}
		sym := make([]byte, 0, 128)
		for k := 0; k < 64; k++ {
			sym = append(sym, char6[k], char6[k]|0x80)
		}
		check := func(s string) {
			id := tw.Intern(s)
			if prev, dup := seen[id]; dup && prev != s {
				r.Violation("intern.not-injective", "two different strings share an id (one has a byte outside the alphabet)", "twin/"+s, map[string]any{"s": s, "other": prev, "id": int32(id)})
			}
			seen[id] = s
			if v := tw.Value(id); v != s {
				r.Violation("intern.value-roundtrip", "Value(Intern(s)) != s (string with a byte outside the alphabet)", "twin/"+s, map[string]any{"s": s, "id": int32(id), "value": v})
			}
			r.Eval("twin/" + s)
		}
		for _, a := range sym {
			check(string([]byte{a}))
			for _, b := range sym {
				check(string([]byte{a, b}))
			}
		}
	}

	// ---------- sequential multisets vs reference map ----------
	nSeq := r.N(300, 5000)
	r.Par(nSeq, func(i int) {
		id := fmt.Sprintf("seq/%d", i)
		if !r.Want(id) {
			return
		}
		rng := r.Rng(id)
		var tb intern.Table
		ref := map[string]intern.ID{}
		rev := map[intern.ID]string{}
		n := rng.Range(50, 3000)
		pool := makePool(rng, rng.Range(5, 400))
		// odd cases go through the byte-slice entry points with ONE scratch buffer that the caller
		// overwrites as soon as the call has returned (InternBytes / QueryBytes promise not to keep it)
		viaBytes := i%2 == 1
		scratch := make([]byte, 0, 64)
		load := func(s string) []byte {
			scratch = append(scratch[:0], s...)
			return scratch
		}
		scribble := func() {
			scratch = scratch[:cap(scratch)]
			for j := range scratch {
				scratch[j] = byte('Z' - j%7)
			}
		}
		if viaBytes {
			r.Class("sequential: byte-slice entry points with a reused scratch buffer")
		}
		for k := 0; k < n; k++ {
			s := pool[rng.Intn(len(pool))]
			if rng.Chance(0.3) {
				var q intern.ID
				var ok bool
				if viaBytes {
					q, ok = tb.QueryBytes(load(s))
					scribble()
				} else {
					q, ok = tb.Query(s)
				}
				want, in := ref[s]
				if inlineable(s) {
					in = true
				}
				if ok != in || (ok && !inlineable(s) && q != want) {
					r.Violation("intern.query", "sequential: Query presence differs from the reference map", id, map[string]any{"s": s, "ok": ok, "want_present": in})
					return
				}
				continue
			}
			var got intern.ID
			if viaBytes {
				got = tb.InternBytes(load(s))
				scribble()
			} else {
				got = tb.Intern(s)
			}
			if old, ok := ref[s]; ok && old != got {
				r.Violation("intern.unstable-id", "sequential: same string, different ids", id, map[string]any{"s": s, "first": int32(old), "now": int32(got)})
				return
			}
			if other, ok := rev[got]; ok && other != s {
				r.Violation("intern.id-collision", "sequential: different strings, same id", id, map[string]any{"s": s, "other": other, "id": int32(got)})
				return
			}
			ref[s], rev[got] = got, s
			if v := tb.Value(got); v != s {
				r.Violation("intern.value-roundtrip", "sequential: Value(Intern(s)) != s", id, map[string]any{"s": s, "value": v})
				return
			}
		}
		// all earlier ids still map back
		for s, sid := range ref {
			if tb.Value(sid) != s {
				r.Violation("intern.value-roundtrip", "sequential: an earlier id no longer maps back", id, map[string]any{"s": s})
				return
			}
		}
		r.Eval(fmt.Sprintf("seq/%d/%d", len(pool), n))
	})

	// ---------- concurrent histories ----------
	nConc := r.N(150, 3000)
	var ilv sync.Map
	for i := 0; i < nConc; i++ {
		if !r.Mine(i) {
			continue
		}
		id := fmt.Sprintf("conc/%d", i)
		if !r.Want(id) {
			continue
		}
		reps := 1
		if r.Replaying() {
			reps = r.ReplayRep
		}
		for rep := 0; rep < reps; rep++ {
			concCase(r, id, &ilv)
		}
	}
	nI := 0
	ilv.Range(func(_, _ any) bool { nI++; return true })
	r.Extra("distinct_histories_observed", nI)
}

func makePool(rng *vlib.RNG, n int) []string {
	pool := make([]string, n)
	prefix := strings.Repeat("p", rng.Range(0, 40))
	for k := range pool {
		switch rng.Intn(4) {
		case 0: // inlineable
			b := make([]byte, rng.Range(0, 5))
			for j := range b {
				b[j] = char6[rng.Intn(64)]
			}
			pool[k] = string(b)
		case 1: // long shared prefix
			pool[k] = fmt.Sprintf("%s%d", prefix+"_shared_", rng.Intn(n))
		case 2:
			pool[k] = fmt.Sprintf("pkg.sub%d.Message%d", rng.Intn(4), rng.Intn(n))
		default:
			b := make([]byte, rng.Range(6, 24))
			for j := range b {
				b[j] = byte(rng.Intn(256))
			}
			pool[k] = string(b)
		}
	}
	return pool
}

func concCase(r *vlib.Run, id string, ilv *sync.Map) {
	rng := r.Rng(id)
	G := []int{2, 4, 8, 16, 32, 64}[rng.Intn(6)]
	distinct := rng.Range(1, 12)
	if rng.Chance(0.2) {
		distinct = rng.Range(100, 3000) // forces log growth across capacity doublings
	}
	pool := make([]string, distinct)
	for k := range pool {
		pool[k] = fmt.Sprintf("long-string-%s-%d", id, k)
	}
	opsPer := rng.Range(3, 40)
	if distinct > 50 {
		opsPer = rng.Range(50, 400)
	}
	var tb intern.Table
	var clock atomic.Int64
	type rec struct{ ops []porcupine.Operation }
	recs := make([]rec, G)
	var wg sync.WaitGroup
	start := make(chan struct{})
	var bad atomic.Pointer[string]
	for g := 0; g < G; g++ {
		grng := rng.Fork(fmt.Sprintf("g%d", g))
		wg.Add(1)
		go func(g int) {
			defer wg.Done()
			<-start
			for k := 0; k < opsPer; k++ {
				s := pool[grng.Intn(len(pool))]
				if grng.Chance(0.35) {
					c := clock.Add(1)
					qid, ok := tb.Query(s)
					ret := clock.Add(1)
					recs[g].ops = append(recs[g].ops, porcupine.Operation{ClientId: g, Input: internOp{true, s}, Call: c, Output: internOut{qid, ok}, Return: ret})
					if ok {
						if v := tb.Value(qid); v != s {
							m := fmt.Sprintf("Value(Query(%q)) = %q", s, v)
							bad.Store(&m)
						}
					}
				} else {
					c := clock.Add(1)
					iid := tb.Intern(s)
					ret := clock.Add(1)
					recs[g].ops = append(recs[g].ops, porcupine.Operation{ClientId: g, Input: internOp{false, s}, Call: c, Output: internOut{iid, true}, Return: ret})
					if v := tb.Value(iid); v != s {
						m := fmt.Sprintf("Value(Intern(%q)) = %q", s, v)
						bad.Store(&m)
					}
				}
			}
		}(g)
	}
	close(start)
	wg.Wait()
	var hist []porcupine.Operation
	for g := range recs {
		hist = append(hist, recs[g].ops...)
	}
	// bijection over the whole history
	byS := map[string]intern.ID{}
	byID := map[intern.ID]string{}
	for _, op := range hist {
		in, out := op.Input.(internOp), op.Output.(internOut)
		if in.Query && !out.OK {
			continue
		}
		if o, ok := byS[in.S]; ok && o != out.ID {
			r.Violation("intern.unstable-id", "concurrent: goroutines got different ids for one string", id, histWitness(hist, in.S))
			return
		}
		if o, ok := byID[out.ID]; ok && o != in.S {
			r.Violation("intern.id-collision", "concurrent: two strings share an id", id, histWitness(hist, in.S))
			return
		}
		byS[in.S], byID[out.ID] = out.ID, in.S
	}
	if m := bad.Load(); m != nil {
		r.Violation("intern.value-roundtrip", "concurrent: Value of a just-returned id is wrong", id, map[string]any{"detail": *m})
		return
	}
	// Linearizability. Small histories go through porcupine (general checker, search may be exponential);
	// every history is also decided by an exact O(n) checker specialised to this model (see internKeyLinearizable),
	// so a porcupine timeout never leaves a history undecided.
	if bad := internHistoryLinearizable(hist); bad != "" {
		r.Violation("intern.not-linearizable", "concurrent Intern/Query history is not linearizable against the first-intern-fixes-the-id model", id, histWitness(hist, bad))
	} else if len(hist) <= 400 {
		res, _ := porcupine.CheckOperationsVerbose(internModel, hist, 10*time.Second)
		switch res {
		case porcupine.Illegal:
			r.Violation("intern.not-linearizable", "porcupine: concurrent Intern/Query history is not linearizable against the first-intern-fixes-the-id model", id, histWitness(hist, ""))
		case porcupine.Unknown:
			r.Class("porcupine-timeout (history decided by the specialised checker)")
		default:
			r.Class("porcupine-ok")
		}
	} else {
		r.Class("decided-by-specialised-checker-only (history too long for porcupine)")
	}
	// interleaving signature: order of (goroutine) by call time, hashed
	var sb strings.Builder
	for _, op := range hist {
		fmt.Fprintf(&sb, "%d:%d:%d;", op.ClientId, op.Call, op.Return)
	}
	h := vlib.Hash64(sb.String())
	ilv.Store(h, true)
	contended := 0
	touch := map[string]map[int]bool{}
	for _, op := range hist {
		s := op.Input.(internOp).S
		if touch[s] == nil {
			touch[s] = map[int]bool{}
		}
		touch[s][op.ClientId] = true
	}
	for _, m := range touch {
		if len(m) >= 2 {
			contended++
		}
	}
	if contended > 0 {
		r.Eval(fmt.Sprintf("%s/%x", id, h))
	} else {
		r.Eval("")
	}
	r.ClassN("concurrent-ops", int64(len(hist)))
	r.ClassN("strings-touched-by>=2-goroutines", int64(contended))
	if id == "conc/0" {
		n := len(hist)
		if n > 6 {
			n = 6
		}
		var ss []string
		for _, op := range hist[:n] {
			ss = append(ss, fmt.Sprintf("g%d [%d,%d] %+v -> %+v", op.ClientId, op.Call, op.Return, op.Input, op.Output))
		}
		r.Sample("concurrent-history-prefix", ss)
	}
}

func histWitness(hist []porcupine.Operation, only string) map[string]any {
	var ss []string
	for _, op := range hist {
		if only != "" && op.Input.(internOp).S != only {
			continue
		}
		ss = append(ss, fmt.Sprintf("g%d [%d,%d] %+v -> %+v", op.ClientId, op.Call, op.Return, op.Input, op.Output))
		if len(ss) > 400 {
			break
		}
	}
	return map[string]any{"history": ss}
}

// internHistoryLinearizable decides, per string, whether the recorded operations are linearizable against
// the model "the first Intern fixes the id; Query reports present iff an Intern has taken effect", given that
// all successful operations on one string already returned one id (checked by the caller). It returns "" or the
// string whose sub-history is not linearizable.
//
// For one string: a linearization exists iff a point p can be chosen for the first Intern such that
//   - p lies after the call of every Query that answered "absent" (they must take effect before p),
//   - p lies before the return of every Query that answered "present" and of every Intern (they take effect at or after p),
//   - p is not before the earliest Intern call (some Intern must have started).
//
// If there is no Intern at all, every Query must have answered "absent". Intervals are closed (as in porcupine).
func internHistoryLinearizable(hist []porcupine.Operation) string {
	type agg struct {
		interns               int
		minInternCall         int64
		minReturnOfAfter      int64 // min return over interns and present-queries
		maxCallOfAbsent       int64
		presentWithoutInterns bool
	}
	m := map[string]*agg{}
	for _, op := range hist {
		in, out := op.Input.(internOp), op.Output.(internOut)
		a := m[in.S]
		if a == nil {
			a = &agg{minInternCall: 1 << 62, minReturnOfAfter: 1 << 62, maxCallOfAbsent: -1}
			m[in.S] = a
		}
		switch {
		case !in.Query:
			a.interns++
			if op.Call < a.minInternCall {
				a.minInternCall = op.Call
			}
			if op.Return < a.minReturnOfAfter {
				a.minReturnOfAfter = op.Return
			}
		case out.OK:
			if op.Return < a.minReturnOfAfter {
				a.minReturnOfAfter = op.Return
			}
		default:
			if op.Call > a.maxCallOfAbsent {
				a.maxCallOfAbsent = op.Call
			}
		}
	}
	for _, op := range hist {
		in, out := op.Input.(internOp), op.Output.(internOut)
		if in.Query && out.OK && m[in.S].interns == 0 {
			return in.S
		}
	}
	for s, a := range m {
		if a.interns == 0 {
			continue
		}
		lo := a.minInternCall
		if a.maxCallOfAbsent > lo {
			lo = a.maxCallOfAbsent
		}
		if lo > a.minReturnOfAfter {
			return s
		}
	}
	return ""
}
