package small

import (
	"fmt"
	"math"
	"math/big"
	"strconv"
	"strings"
	"testing"

	"github.com/bufbuild/protocompile/internal/decimal"
	"github.com/bufbuild/protocompile/internal/verifmon/vlib"
)

// C39 — decimal to float conversion is correctly rounded.
//
// Oracle: strconv.ParseFloat (value, bit-exact, sign of zero included) and
// math/big rationals (exactness).

func digits(rng *vlib.RNG, n int, hex bool) string {
	const d10 = "0123456789"
	const d16 = "0123456789abcdefABCDEF"
	b := make([]byte, n)
	for i := range b {
		if hex {
			b[i] = d16[rng.Intn(len(d16))]
		} else {
			b[i] = d10[rng.Intn(10)]
		}
	}
	return string(b)
}

// numeral classes; each returns a numeral in the syntax accepted by both
// decimal.Parse and strconv.ParseFloat.
func genNumeral(rng *vlib.RNG, class int) (string, string) {
	sign := ""
	if rng.Chance(0.25) {
		sign = "-"
	}
	switch class {
	case 0: // small mantissa × power of ten (Clinger fast-path region and just beyond)
		m := rng.Uint64() >> uint(rng.Range(11, 63))
		e := rng.Range(-40, 40)
		return fmt.Sprintf("%s%de%d", sign, m, e), "mant53-pow10"
	case 1: // d.ddd with fraction
		ip := digits(rng, rng.Range(1, 20), false)
		fp := digits(rng, rng.Range(1, 25), false)
		s := ip + "." + fp
		if rng.Bool() {
			s += fmt.Sprintf("e%d", rng.Range(-330, 310))
		}
		return sign + s, "fraction"
	case 2: // long mantissas
		n := rng.Range(20, 800)
		s := digits(rng, n, false)
		if rng.Bool() {
			k := rng.Intn(n)
			s = s[:k] + "." + s[k:]
		}
		if s[0] == '.' {
			s = "0" + s
		}
		s += fmt.Sprintf("e%d", rng.Range(-400-n, 400))
		return sign + s, "long-mantissa"
	case 3: // exact halfway between adjacent doubles, ± a tiny decimal perturbation
		bits := rng.Uint64() & 0x7fefffffffffffff
		if rng.Chance(0.2) {
			bits &= 0x000fffffffffffff // subnormal
		}
		f := math.Float64frombits(bits)
		g := math.Nextafter(f, math.Inf(1))
		if math.IsInf(g, 0) || f == 0 {
			return sign + "1e0", "halfway"
		}
		a, _ := new(big.Float).SetPrec(2000).SetFloat64(f).Rat(nil)
		b, _ := new(big.Float).SetPrec(2000).SetFloat64(g).Rat(nil)
		mid := new(big.Rat).Add(a, b)
		mid.Quo(mid, big.NewRat(2, 1))
		// exact decimal expansion of a dyadic rational: enough digits
		s := mid.FloatString(1100)
		s = strings.TrimRight(s, "0")
		if strings.HasSuffix(s, ".") {
			s += "0"
		}
		switch rng.Intn(3) {
		case 0:
		case 1:
			s += "0000000001"
		case 2:
			// decrement last digit (it is non-zero after trimming, or ".0")
			bs := []byte(s)
			if bs[len(bs)-1] > '0' {
				bs[len(bs)-1]--
				s = string(bs) + "9999999999"
			}
		}
		return sign + s, "halfway"
	case 4: // overflow edge and subnormal edge
		edges := []string{
			"1.7976931348623157e308", "1.7976931348623158e308", "1.797693134862315807e308",
			"1.797693134862315808e308", "1.7976931348623159e308", "1.8e308", "1e309", "1e400",
			"4.9406564584124654e-324", "2.4703282292062327e-324", "2.4703282292062328e-324",
			"2.470328229206232720e-324", "2.4703282292062329e-324", "1e-324", "1e-400", "2.2250738585072011e-308",
			"2.2250738585072014e-308", "2.2250738585072009e-308", "0e0", "0.0", "0e500", "0.000e-500",
		}
		s := vlib.Pick(rng, edges)
		if rng.Chance(0.5) {
			// perturb last mantissa digit
			i := strings.IndexAny(s, "e")
			if i > 1 {
				bs := []byte(s)
				bs[i-1] = byte('0' + rng.Intn(10))
				s = string(bs)
			}
		}
		return sign + s, "edge"
	case 5: // exact powers of ten and 1..9 × 10^e
		return fmt.Sprintf("%s%de%d", sign, rng.Range(1, 9), rng.Range(-330, 310)), "pow10"
	case 6: // hex floats
		ip := digits(rng, rng.Range(1, 18), true)
		s := "0x" + ip
		if rng.Bool() {
			s += "." + digits(rng, rng.Range(1, 18), true)
		}
		s += fmt.Sprintf("p%d", rng.Range(-1100, 1030))
		return sign + s, "hexfloat"
	case 7: // hex floats with exactly 54/55 significant bits (round-to-even at bit 53)
		m := (uint64(1) << 53) | (rng.Uint64() & ((1 << 53) - 1))
		if rng.Bool() {
			m |= 1
			m &^= 2
			if rng.Bool() {
				m |= 2
			}
		}
		sfx := ""
		if rng.Chance(0.3) {
			sfx = ".8"
		} else if rng.Chance(0.3) {
			sfx = ".0000000000000001"
		}
		return fmt.Sprintf("%s0x%x%sp%d", sign, m, sfx, rng.Range(-1080, 960)), "hexfloat-54bit"
	case 8: // mantissas on a machine-word boundary: k·2^(64w) + δ, as decimal or hex digits, possibly continued by more digits
		w := uint(rng.Range(1, 3))
		k := new(big.Int).SetUint64(rng.Uint64() >> uint(rng.Intn(64)))
		if k.Sign() == 0 || rng.Chance(0.3) {
			k.SetUint64(uint64(rng.Range(1, 9)))
		}
		m := new(big.Int).Lsh(k, 64*w)
		switch rng.Intn(5) {
		case 0:
			m.Add(m, big.NewInt(1))
		case 1:
			m.Sub(m, big.NewInt(1))
		case 2:
			m.Add(m, new(big.Int).Lsh(big.NewInt(int64(rng.Range(1, 15))), 64*(w-1)))
		}
		if rng.Chance(0.4) {
			ms := fmt.Sprintf("%x", m)
			if rng.Bool() {
				// the boundary value is a PREFIX of the digit string
				ms += digits(rng, rng.Range(1, 6), true)
			}
			if rng.Bool() {
				ms += "." + digits(rng, rng.Range(1, 18), true)
			}
			return fmt.Sprintf("%s0x%sp%d", sign, ms, rng.Range(-1100, 900)), "word-boundary-hex"
		}
		ms := m.String()
		if rng.Bool() {
			ms += digits(rng, rng.Range(1, 8), false)
		}
		switch rng.Intn(3) {
		case 0:
			ms += ".0"
		case 1:
			ms += "." + digits(rng, rng.Range(1, 12), false)
		}
		if rng.Bool() {
			ms += fmt.Sprintf("e%d", rng.Range(-340, 280))
		}
		return sign + ms, "word-boundary-decimal"
	default: // integers
		return sign + strings.TrimLeft(digits(rng, rng.Range(1, 40), false), "0") + "0", "integer"
	}
}

func checkNumeral(r *vlib.Run, s, class, id string) {
	var d *decimal.Decimal
	var perr error
	var got, got2 float64
	var exact, again bool
	if pv, st := vlib.Try(func() {
		d, perr = new(decimal.Decimal).Parse(s)
		if perr == nil {
			got, exact = d.Float64()
			// converting is an observation, not a mutation: asking again must give the same answer
			for k := 0; k < 2 && !again; k++ {
				g2, e2 := d.Float64()
				if math.Float64bits(g2) != math.Float64bits(got) || e2 != exact {
					again, got2 = true, g2
				}
			}
		}
	}); pv != nil {
		r.Violation("decimal.panic", "panic at "+vlib.PanicSite(st), id, map[string]any{"numeral": s, "panic": fmt.Sprint(pv)})
		return
	}
	ref := strings.ReplaceAll(s, "_", "")
	want, err := strconv.ParseFloat(ref, 64)
	if err != nil && !strings.Contains(err.Error(), "out of range") {
		// not in the common syntax; nothing to decide
		r.Class("skipped-not-common-syntax")
		return
	}
	if perr != nil {
		r.Violation("decimal.parse-rejects", class+": Parse rejects a numeral strconv accepts", id, map[string]any{"numeral": s, "error": perr.Error()})
		return
	}
	if again {
		r.Violation("decimal.float64-not-repeatable", class+": a second Float64 call on the same Decimal gives another answer", id, map[string]any{
			"numeral": s, "first": strconv.FormatFloat(got, 'g', -1, 64), "later": strconv.FormatFloat(got2, 'g', -1, 64), "want": strconv.FormatFloat(want, 'g', -1, 64)})
		return
	}
	if math.Float64bits(got) != math.Float64bits(want) {
		ulps := int64(math.Float64bits(got)) - int64(math.Float64bits(want))
		rel := "other"
		if ulps == 1 || ulps == -1 {
			rel = "off-by-one-ulp"
		}
		r.Violation("decimal.float64-value", class+": "+rel, id, map[string]any{
			"numeral": s, "got": strconv.FormatFloat(got, 'g', -1, 64), "got_bits": fmt.Sprintf("%016x", math.Float64bits(got)),
			"want": strconv.FormatFloat(want, 'g', -1, 64), "want_bits": fmt.Sprintf("%016x", math.Float64bits(want)),
		})
		return
	}
	if exact {
		// exact must imply: the numeral's rational value equals the float.
		rat, ok := new(big.Rat).SetString(ref)
		if !ok {
			r.Class("exactness-undecided")
			return
		}
		if math.IsInf(got, 0) || math.IsNaN(got) {
			r.Violation("decimal.exact-flag", class+": exact reported for a non-finite result", id, map[string]any{"numeral": s})
			return
		}
		fr := new(big.Rat).SetFloat64(got)
		if fr.Cmp(rat) != 0 {
			r.Violation("decimal.exact-flag", class+": exact=true although the value was rounded", id, map[string]any{
				"numeral": s, "float": strconv.FormatFloat(got, 'g', -1, 64)})
			return
		}
		r.Class("exact-true-confirmed")
	} else {
		r.Class("exact-false")
	}
}

func TestC39(t *testing.T) {
	r := vlib.Start(t, "C39")
	defer r.Finish()
	r.Extra("rule", "numerals generated per class (mant53-pow10, fraction, long-mantissa, halfway±δ, edge, pow10, hexfloat, hexfloat-54bit, word-boundary mantissas k·2^(64w)+δ in decimal and hex also as a prefix of the digit string, integer) from the seed; every Decimal is converted three times and must answer the same; "+
		"exhaustive part: every m·10^e with m in 1..2000 odd/even and e in [-30,30]; distinct = distinct numeral strings; all are non-trivial (a conversion is performed)")
	r.Extra("assumptions", []string{"strconv.ParseFloat is correctly rounded (ties to even)", "math/big rationals are exact"})

	// exhaustive small grid: m × 10^e around the pow5 tables
	r.Par(61, func(k int) {
		e := k - 30
		var n int64
		for m := 1; m <= r.N(2000, 40000); m++ {
			s := fmt.Sprintf("%de%d", m, e)
			id := "grid/" + s
			if !r.Want(id) {
				continue
			}
			n++
			checkNumeral(r, s, "grid-m*10^e", id)
		}
		r.EvalN(n, n)
	})
	total := r.N(200000, 20000000)
	const chunk = 1000
	r.Par(total/chunk, func(c int) {
		for j := 0; j < chunk; j++ {
			i := c*chunk + j
			id := fmt.Sprintf("gen/%d", i)
			if !r.Want(id) {
				continue
			}
			rng := r.Rng(id)
			s, class := genNumeral(rng, i%10)
			if rng.Chance(0.03) && len(s) > 3 && !strings.HasPrefix(strings.TrimPrefix(s, "-"), "0x") {
				// underscores between digits are documented as ignored
				k := rng.Range(1, len(s)-2)
				if isDigit(s[k-1]) && isDigit(s[k]) {
					s = s[:k] + "_" + s[k:]
				}
			}
			r.Eval(s)
			r.Class("class:" + class)
			if i < 10 {
				r.Sample(class, s)
			}
			checkNumeral(r, s, class, id)
		}
	})
}

func isDigit(c byte) bool { return c >= '0' && c <= '9' }
