package small

import (
	"fmt"
	"iter"
	"strings"
	"testing"

	"github.com/bufbuild/protocompile/internal/toposort"
	"github.com/bufbuild/protocompile/internal/trie"
	"github.com/bufbuild/protocompile/internal/verifmon/vlib"
)

// C41 — topological sort and prefix trie match their specifications.

type graph struct {
	n   int
	adj [][]int
}

func graphFromBits(n int, bits uint64, selfLoops bool) graph {
	g := graph{n: n, adj: make([][]int, n)}
	k := 0
	for i := 0; i < n; i++ {
		for j := 0; j < n; j++ {
			if i == j && !selfLoops {
				continue
			}
			if bits>>uint(k)&1 == 1 {
				g.adj[i] = append(g.adj[i], j)
			}
			k++
		}
	}
	return g
}

func (g graph) String() string {
	var sb strings.Builder
	for i, a := range g.adj {
		fmt.Fprintf(&sb, "%d->%v;", i, a)
	}
	return sb.String()
}

func (g graph) reachable(roots []int) map[int]bool {
	seen := map[int]bool{}
	var dfs func(int)
	dfs = func(v int) {
		if seen[v] {
			return
		}
		seen[v] = true
		for _, w := range g.adj[v] {
			dfs(w)
		}
	}
	for _, r := range roots {
		dfs(r)
	}
	return seen
}

// cyclicFrom reports whether a cycle is reachable from roots.
func (g graph) cyclicFrom(roots []int) bool {
	state := map[int]int{}
	var dfs func(int) bool
	dfs = func(v int) bool {
		switch state[v] {
		case 1:
			return true
		case 2:
			return false
		}
		state[v] = 1
		for _, w := range g.adj[v] {
			if dfs(w) {
				return true
			}
		}
		state[v] = 2
		return false
	}
	for _, r := range roots {
		if dfs(r) {
			return true
		}
	}
	return false
}

type abortSort struct{}

// runSort executes the real sorter with a step budget decided by counts (not
// time): more than budget yields or child enumerations means non-termination.
func runSort(s *toposort.Sorter[int, int], g graph, roots []int, stopAfter int) (out []int, overBudget bool, pv any, stack string) {
	budget := (g.n+1)*(g.n+1)*4 + 16
	steps := 0
	dag := func(v int) iter.Seq[int] {
		return func(yield func(int) bool) {
			steps++
			if steps > budget {
				panic(abortSort{})
			}
			for _, w := range g.adj[v] {
				if !yield(w) {
					return
				}
			}
		}
	}
	pv, stack = vlib.Try(func() {
		for v := range s.Sort(roots, dag) {
			out = append(out, v)
			if len(out) > budget {
				panic(abortSort{})
			}
			if stopAfter >= 0 && len(out) >= stopAfter {
				break
			}
		}
	})
	if _, ok := pv.(abortSort); ok {
		return out, true, nil, ""
	}
	return out, false, pv, stack
}

func checkSort(r *vlib.Run, s *toposort.Sorter[int, int], g graph, roots []int, id string) {
	out, over, pv, stack := runSort(s, g, roots, -1)
	judgeSort(r, g, roots, id, "", out, over, pv, stack)
}

// consume ranges over a sequence obtained earlier (step budget as in runSort).
func consume(seq iter.Seq[int], budget int) (out []int, overBudget bool, pv any, stack string) {
	pv, stack = vlib.Try(func() {
		for v := range seq {
			out = append(out, v)
			if len(out) > budget {
				panic(abortSort{})
			}
		}
	})
	if _, ok := pv.(abortSort); ok {
		return out, true, nil, ""
	}
	return out, false, pv, stack
}

// checkSortSequences: the value Sort returns is a lazy sequence. Two sequences taken from one
// Sorter before either is consumed, and a sequence that is ranged over a second time, are sorts
// like any other (dag inputs only: a cyclic one panics on the unchanged tree, known finding).
func checkSortSequences(r *vlib.Run, s *toposort.Sorter[int, int], g graph, rootsA, rootsB []int, id string) {
	budget := (g.n+1)*(g.n+1)*4 + 16
	dag := func(v int) iter.Seq[int] {
		return func(yield func(int) bool) {
			for _, w := range g.adj[v] {
				if !yield(w) {
					return
				}
			}
		}
	}
	seqA := s.Sort(rootsA, dag)
	seqB := s.Sort(rootsB, dag)
	out, over, pv, stack := consume(seqA, budget)
	judgeSort(r, g, rootsA, id, "first of two sequences taken before either is consumed: ", out, over, pv, stack)
	out, over, pv, stack = consume(seqB, budget)
	judgeSort(r, g, rootsB, id, "second of two sequences taken before either is consumed: ", out, over, pv, stack)
	out, over, pv, stack = consume(seqA, budget)
	judgeSort(r, g, rootsA, id, "a sequence ranged over a second time: ", out, over, pv, stack)
}

func judgeSort(r *vlib.Run, g graph, roots []int, id, usage string, out []int, over bool, pv any, stack string) {
	cyc := g.cyclicFrom(roots)
	w := map[string]any{"graph": g.String(), "roots": roots, "cyclic": cyc, "output": out}
	cls := usage + "dag"
	if cyc {
		cls = usage + "cyclic"
	}
	if over {
		r.Violation("toposort.nontermination", cls+" input exceeded the step budget", id, w)
		return
	}
	if pv != nil {
		msg := fmt.Sprint(pv)
		w["panic"] = msg
		w["site"] = vlib.PanicSite(stack)
		if cyc && strings.HasPrefix(msg, "protocompile/internal: cycle detected") {
			r.Violation("toposort.cyclic-input-panic", "panic: protocompile/internal: cycle detected (at "+vlib.PanicSite(stack)+")", id, w)
		} else {
			r.Violation("toposort.panic", cls+" input: panic at "+vlib.PanicSite(stack), id, w)
		}
		return
	}
	reach := g.reachable(roots)
	pos := map[int]int{}
	for i, v := range out {
		if _, dup := pos[v]; dup {
			r.Violation("toposort.duplicate", cls+" input: node yielded twice", id, w)
			return
		}
		pos[v] = i
		if !reach[v] {
			r.Violation("toposort.unreachable-yielded", cls+" input: unreachable node yielded", id, w)
			return
		}
	}
	if len(pos) != len(reach) {
		r.Violation("toposort.missing", cls+" input: reachable node not yielded", id, w)
		return
	}
	if !cyc {
		for v := range reach {
			for _, c := range g.adj[v] {
				if pos[c] > pos[v] {
					r.Violation("toposort.order", "dag input: node before one of its children", id, w)
					return
				}
			}
		}
	}
}

func rootLists(n int) [][]int {
	out := [][]int{{}}
	for a := 0; a < n; a++ {
		out = append(out, []int{a})
	}
	for a := 0; a < n; a++ {
		for b := 0; b < n; b++ {
			out = append(out, []int{a, b})
		}
	}
	return out
}

func TestC41(t *testing.T) {
	r := vlib.Start(t, "C41")
	defer r.Finish()

	// ---------- toposort: exhaustive small digraphs ----------
	type space struct {
		n    int
		self bool
	}
	spaces := []space{{1, true}, {2, true}, {3, true}, {4, false}}
	if !r.Quick() {
		spaces = append(spaces, space{4, true})
	}
	for _, sp := range spaces {
		nb := sp.n * sp.n
		if !sp.self {
			nb = sp.n * (sp.n - 1)
		}
		total := 1 << uint(nb)
		rl := rootLists(sp.n)
		r.Par(total, func(bits int) {
			g := graphFromBits(sp.n, uint64(bits), sp.self)
			s := &toposort.Sorter[int, int]{Key: func(v int) int { return v }}
			var cnt, nt int64
			for _, roots := range rl {
				id := fmt.Sprintf("topo/n%d-s%v-%x/%v", sp.n, sp.self, bits, roots)
				if !r.Want(id) {
					continue
				}
				cnt++
				if len(g.reachable(roots)) >= 2 {
					nt++
				}
				checkSort(r, s, g, roots, id)
			}
			// Sorter reuse after an early stop by the consumer.
			if len(rl) > 1 && !g.cyclicFrom(rl[len(rl)-1]) {
				id := fmt.Sprintf("topo/n%d-s%v-%x/early", sp.n, sp.self, bits)
				if r.Want(id) {
					roots := rl[len(rl)-1]
					_, _, pv, _ := runSort(s, g, roots, 1)
					if pv == nil {
						checkSort(r, s, g, roots, id)
						cnt++
					}
				}
			}
			// several sequences from one Sorter; a sequence consumed twice
			if len(rl) > 2 && !g.cyclicFrom(rl[len(rl)-1]) && !g.cyclicFrom(rl[len(rl)/2]) {
				id := fmt.Sprintf("topo/n%d-s%v-%x/sequences", sp.n, sp.self, bits)
				if r.Want(id) {
					checkSortSequences(r, s, g, rl[len(rl)-1], rl[len(rl)/2], id)
					cnt += 3
					nt += 3
				}
			}
			r.EvalN(cnt, nt)
		})
	}
	// ---------- toposort: random larger graphs ----------
	nRand := r.N(3000, 100000)
	r.Par(nRand, func(i int) {
		id := fmt.Sprintf("topo/rand/%d", i)
		if !r.Want(id) {
			return
		}
		rng := r.Rng(id)
		n := rng.Range(5, 14)
		g := graph{n: n, adj: make([][]int, n)}
		dagOnly := rng.Chance(0.7)
		dens := 0.1 + 0.4*rng.Float64()
		for a := 0; a < n; a++ {
			for b := 0; b < n; b++ {
				if dagOnly && b >= a {
					continue
				}
				if rng.Chance(dens) {
					g.adj[a] = append(g.adj[a], b)
					if rng.Chance(0.05) {
						g.adj[a] = append(g.adj[a], b) // multi-edge
					}
				}
			}
			vlib.Shuffle(rng, g.adj[a])
		}
		nr := rng.Range(1, 4)
		roots := make([]int, nr)
		for k := range roots {
			roots[k] = rng.Intn(n)
		}
		s := &toposort.Sorter[int, int]{Key: func(v int) int { return v }}
		r.Eval(g.String() + fmt.Sprint(roots))
		if i == 0 {
			r.Sample("toposort-random", map[string]any{"graph": g.String(), "roots": roots})
		}
		checkSort(r, s, g, roots, id)
		if dagOnly && i%4 == 0 {
			rb := []int{rng.Intn(n), rng.Intn(n)}
			checkSortSequences(r, s, g, roots, rb, id+"/sequences")
		}
	})

	// ---------- trie: small key sets ----------
	alpha := []byte{'a', 'b', 0x00, 0xff}
	var keys []string
	var gen func(prefix string, l int)
	gen = func(prefix string, l int) {
		keys = append(keys, prefix)
		if l == 0 {
			return
		}
		for _, c := range alpha {
			gen(prefix+string([]byte{c}), l-1)
		}
	}
	gen("", 3)
	var queries []string
	{
		save := keys
		keys = nil
		gen("", 4)
		queries = keys
		keys = save
	}
	nk := len(keys)
	// all ordered insertion sequences of length<=2 (quick) / <=3 (thorough), with repeats
	// (a repeated key overwrites its value).
	maxSeq := r.N(2, 3)
	r.Extra("trie_exhaustive", fmt.Sprintf("all insertion sequences of length<=%d over the %d keys of length<=3 over {a,b,00,ff}; every query of length<=4 (%d)", maxSeq, nk, len(queries)))
	total := nk
	if maxSeq >= 2 {
		total = nk * nk
	}
	r.Par(total, func(idx int) {
		seqs := [][]string{}
		if maxSeq >= 2 {
			a, b := keys[idx/nk], keys[idx%nk]
			if idx%nk == 0 {
				seqs = append(seqs, []string{a})
			}
			seqs = append(seqs, []string{a, b})
			if maxSeq >= 3 {
				for _, c := range keys {
					seqs = append(seqs, []string{a, b, c})
				}
			}
		}
		var cnt, nt int64
		for _, seq := range seqs {
			id := fmt.Sprintf("trie/seq/%q", seq)
			if !r.Want(id) {
				continue
			}
			cnt++
			if len(seq) >= 2 {
				nt++
			}
			checkTrie(r, seq, queries, id)
		}
		r.EvalN(cnt, nt)
	})

	// ---------- trie: random sets incl. index growth ----------
	type big struct {
		name  string
		nkeys int
		klen  int
	}
	bigs := []big{{"grow-u16", 400, 6}}
	bigs = append(bigs, big{"grow-u32", 30000, 8})
	for bi, bg := range bigs {
		if !r.Mine(bi) {
			continue
		}
		id := "trie/" + bg.name
		if !r.Want(id) {
			continue
		}
		rng := r.Rng(id)
		seq := make([]string, bg.nkeys)
		for i := range seq {
			l := rng.Range(1, bg.klen)
			b := make([]byte, l)
			for j := range b {
				if rng.Chance(0.5) {
					b[j] = alpha[rng.Intn(len(alpha))]
				} else {
					b[j] = byte(rng.Intn(256))
				}
			}
			seq[i] = string(b)
		}
		var qs []string
		for i := 0; i < 4000; i++ {
			k := seq[rng.Intn(len(seq))]
			switch rng.Intn(3) {
			case 0:
				qs = append(qs, k)
			case 1:
				qs = append(qs, k+string([]byte{byte(rng.Intn(256)), byte(rng.Intn(256))}))
			default:
				if len(k) > 1 {
					qs = append(qs, k[:len(k)-1])
				}
			}
		}
		r.Eval(id)
		r.Class("trie-large:" + bg.name)
		pref := map[string]bool{}
		for _, k := range seq {
			for l := 1; l <= len(k); l++ {
				pref[k[:l]] = true
			}
		}
		r.Extra("trie_nodes_"+bg.name, len(pref)+1)
		checkTrie(r, seq, qs, id)
	}
	trieLongKeys(r)
	nTR := r.N(2000, 60000)
	r.Par(nTR, func(i int) {
		id := fmt.Sprintf("trie/rand/%d", i)
		if !r.Want(id) {
			return
		}
		rng := r.Rng(id)
		n := rng.Range(3, 12)
		seq := make([]string, n)
		for k := range seq {
			seq[k] = keys[rng.Intn(len(keys))]
			if rng.Chance(0.3) {
				seq[k] += queries[rng.Intn(len(queries))]
			}
		}
		r.Eval(fmt.Sprintf("%q", seq))
		if i == 0 {
			r.Sample("trie-random", fmt.Sprintf("%q", seq))
		}
		checkTrie(r, seq, queries, id)
	})
}

// trieLongKeys: few keys, each up to 400 bytes over {a,b,00,ff} (one Insert then creates hundreds of nodes at once),
// sharing long prefixes; queried with the keys, their prefixes and extensions.
func trieLongKeys(r *vlib.Run) {
	alpha := []byte{'a', 'b', 0x00, 0xff}
	n := r.N(600, 20000)
	r.Par(n, func(i int) {
		id := fmt.Sprintf("trie/long/%d", i)
		if !r.Want(id) {
			return
		}
		rng := r.Rng(id)
		mk := func(l int) string {
			b := make([]byte, l)
			for j := range b {
				b[j] = alpha[rng.Intn(len(alpha))]
			}
			return string(b)
		}
		nk := rng.Range(1, 6)
		var seq []string
		for k := 0; k < nk; k++ {
			l := []int{rng.Range(1, 8), rng.Range(20, 70), rng.Range(60, 160), rng.Range(150, 400)}[rng.Intn(4)]
			key := mk(l)
			if len(seq) > 0 && rng.Chance(0.5) {
				// extend or branch off an earlier key
				base := seq[rng.Intn(len(seq))]
				cut := rng.Intn(len(base) + 1)
				key = base[:cut] + key
			}
			seq = append(seq, key)
		}
		var qs []string
		for _, k := range seq {
			qs = append(qs, k, k+mk(rng.Range(1, 3)))
			if len(k) > 1 {
				qs = append(qs, k[:rng.Intn(len(k))], k[:len(k)-1])
			}
		}
		qs = append(qs, "", mk(rng.Range(1, 40)))
		r.Eval(fmt.Sprintf("%q", seq))
		r.Class("trie-long-keys")
		if i == 0 {
			r.Sample("trie-long-keys", fmt.Sprintf("%q", seq))
		}
		checkTrie(r, seq, qs, id)
	})
}

func checkTrie(r *vlib.Run, seq []string, queries []string, id string) {
	var tr trie.Trie[int]
	model := map[string]int{}
	for i, k := range seq {
		if pv, st := vlib.Try(func() { tr.Insert(k, i) }); pv != nil {
			r.Violation("trie.panic", "Insert panics at "+vlib.PanicSite(st), id, map[string]any{"seq": fmt.Sprintf("%q", seq), "panic": fmt.Sprint(pv)})
			return
		}
		model[k] = i
	}
	for _, q := range queries {
		type pv struct {
			P string
			V int
		}
		var want []pv
		for l := 0; l <= len(q); l++ {
			if v, ok := model[q[:l]]; ok {
				want = append(want, pv{q[:l], v})
			}
		}
		var got []pv
		var gp string
		var gv int
		if p, st := vlib.Try(func() {
			for p, v := range tr.Prefixes(q) {
				got = append(got, pv{p, v})
				if len(got) > len(q)+2 {
					break
				}
			}
			gp, gv = tr.Get(q)
		}); p != nil {
			r.Violation("trie.panic", "lookup panics at "+vlib.PanicSite(st), id, map[string]any{"seq": fmt.Sprintf("%q", seq), "query": fmt.Sprintf("%q", q), "panic": fmt.Sprint(p)})
			return
		}
		ok := len(got) == len(want)
		if ok {
			for i := range got {
				if got[i] != want[i] {
					ok = false
				}
			}
		}
		if !ok {
			r.Violation("trie.prefixes", "Prefixes differs from the model", id, map[string]any{"seq": fmt.Sprintf("%q", seq), "query": fmt.Sprintf("%q", q), "got": fmt.Sprintf("%q", got), "want": fmt.Sprintf("%q", want)})
			return
		}
		wp, wv := "", 0
		if len(want) > 0 {
			wp, wv = want[len(want)-1].P, want[len(want)-1].V
		}
		if gp != wp || gv != wv {
			r.Violation("trie.get", "Get differs from the model", id, map[string]any{"seq": fmt.Sprintf("%q", seq), "query": fmt.Sprintf("%q", q), "got": fmt.Sprintf("%q=%d", gp, gv), "want": fmt.Sprintf("%q=%d", wp, wv)})
			return
		}
	}
}
