package small

import (
	"fmt"
	"sort"
	"strings"
	"testing"

	"github.com/bufbuild/protocompile/internal/interval"
	"github.com/bufbuild/protocompile/internal/verifmon/vlib"
)

// C40 — interval maps match a naive model.
//
// Oracle: the list of inserted intervals. After every insertion of a history
// the real Intersect / Nesting are compared with it.

type ival struct{ A, B int }

func (iv ival) String() string { return fmt.Sprintf("[%d,%d]", iv.A, iv.B) }

func histString(h []ival) string {
	var sb strings.Builder
	for i, iv := range h {
		if i > 0 {
			sb.WriteByte(' ')
		}
		sb.WriteString(iv.String())
	}
	return sb.String()
}

// checkIntersect runs one insertion history against Intersect and the naive
// model; it returns the first discrepancy ("" if none).
func checkIntersect(h []ival, lo, hi int) (kind, detail string) {
	var m interval.Intersect[int, int]
	for n, iv := range h {
		// model: disjoint iff no earlier interval overlaps.
		wantDisjoint := true
		for _, p := range h[:n] {
			if p.A <= iv.B && iv.A <= p.B {
				wantDisjoint = false
				break
			}
		}
		var got bool
		if pv, st := vlib.Try(func() { got = m.Insert(iv.A, iv.B, n) }); pv != nil {
			return "intersect.insert-panic", fmt.Sprintf("insert #%d %v panicked: %v at %s", n, iv, pv, vlib.PanicSite(st))
		}
		if got != wantDisjoint {
			return "intersect.disjoint-flag", fmt.Sprintf("insert #%d %v reported disjoint=%v, model %v", n, iv, got, wantDisjoint)
		}
		// Entries sorted, pairwise disjoint, well-formed.
		prevEnd := lo - 2
		first := true
		for e := range m.Entries() {
			if e.Start > e.End {
				return "intersect.entry-start-after-end", fmt.Sprintf("after insert #%d entry [%d,%d] has start>end", n, e.Start, e.End)
			}
			if !first && e.Start <= prevEnd {
				return "intersect.entries-order", fmt.Sprintf("after insert #%d entries not sorted/disjoint at [%d,%d] (prev end %d)", n, e.Start, e.End, prevEnd)
			}
			first = false
			prevEnd = e.End
			if len(e.Value) == 0 {
				return "intersect.entries-order", fmt.Sprintf("after insert #%d entry [%d,%d] has no values", n, e.Start, e.End)
			}
		}
		// Every point: values of inserted intervals containing p, insertion order.
		for p := lo - 1; p <= hi+1; p++ {
			var want []int
			for k, q := range h[:n+1] {
				if q.A <= p && p <= q.B {
					want = append(want, k)
				}
			}
			e := m.Get(p)
			if !equalInts(e.Value, want) {
				return "intersect.get", fmt.Sprintf("after insert #%d Get(%d) = %v, model %v", n, p, e.Value, want)
			}
			if len(want) > 0 && !(e.Start <= p && p <= e.End) {
				return "intersect.get", fmt.Sprintf("after insert #%d Get(%d) returned entry [%d,%d] not containing the point", n, p, e.Start, e.End)
			}
		}
	}
	return "", ""
}

func equalInts(a, b []int) bool {
	if len(a) != len(b) {
		return false
	}
	for i := range a {
		if a[i] != b[i] {
			return false
		}
	}
	return true
}

// checkNesting runs one history against Nesting: the sets must partition the
// inserted multiset, and within a set any two intervals are disjoint or
// strictly nested.
func checkNesting(h []ival) (kind, detail string) {
	var ns interval.Nesting[int, int]
	for n, iv := range h {
		if pv, st := vlib.Try(func() { ns.Insert(iv.A, iv.B, n) }); pv != nil {
			return "nesting.insert-panic", fmt.Sprintf("insert #%d %v panicked: %v at %s", n, iv, pv, vlib.PanicSite(st))
		}
		seen := map[int]int{}
		for set := range ns.Sets() {
			var in []interval.Entry[int, int]
			for e := range set {
				in = append(in, e)
			}
			for i := range in {
				e := in[i]
				if e.Value < 0 || e.Value > n || h[e.Value].A != e.Start || h[e.Value].B != e.End {
					return "nesting.corrupt-entry", fmt.Sprintf("after insert #%d a set holds [%d,%d]=%d which was never inserted so", n, e.Start, e.End, e.Value)
				}
				seen[e.Value]++
				for j := i + 1; j < len(in); j++ {
					f := in[j]
					disj := e.End < f.Start || f.End < e.Start
					strictIn := (e.Start < f.Start && f.End < e.End) || (f.Start < e.Start && e.End < f.End)
					if !disj && !strictIn {
						return "nesting.not-strictly-nested", fmt.Sprintf("after insert #%d one set holds [%d,%d] and [%d,%d]", n, e.Start, e.End, f.Start, f.End)
					}
				}
			}
		}
		for k := 0; k <= n; k++ {
			if seen[k] != 1 {
				kind := "nesting.lost-interval"
				if seen[k] > 1 {
					kind = "nesting.duplicated-interval"
				}
				return kind, fmt.Sprintf("after insert #%d interval #%d %v appears %d times in the sets", n, k, h[k], seen[k])
			}
		}
	}
	return "", ""
}

// shape abstracts a failing history to the relation pattern between its
// intervals, for signatures: the sequence of pairwise relations of the last
// interval to the earlier ones.
func nestingShape(h []ival) string {
	rel := func(a, b ival) string {
		switch {
		case a == b:
			return "eq"
		case a.B < b.A || b.B < a.A:
			return "disj"
		case a.A == b.A || a.B == b.B:
			return "shared-endpoint"
		case (a.A < b.A && b.B < a.B) || (b.A < a.A && a.B < b.B):
			return "nested"
		}
		return "partial"
	}
	set := map[string]bool{}
	last := h[len(h)-1]
	for _, p := range h[:len(h)-1] {
		set[rel(p, last)] = true
	}
	var ks []string
	for k := range set {
		ks = append(ks, k)
	}
	sort.Strings(ks)
	return strings.Join(ks, "+")
}

func TestC40(t *testing.T) {
	r := vlib.Start(t, "C40")
	defer r.Finish()

	// ---- exhaustive histories over [0,D] ----
	D := 5
	var all []ival
	for a := 0; a <= D; a++ {
		for b := a; b <= D; b++ {
			all = append(all, ival{a, b})
		}
	}
	maxLen := r.N(3, 5)
	nAll := len(all)
	// enumerate by first two elements to split work.
	total := nAll * nAll
	r.Extra("exhaustive_domain", fmt.Sprintf("all insertion sequences of length<=%d over the %d intervals of [0,%d]", maxLen, nAll, D))
	r.Par(total, func(idx int) {
		h := make([]ival, 0, maxLen)
		h = append(h, all[idx/nAll], all[idx%nAll])
		var rec func()
		var cnt, nontriv int64
		rec = func() {
			id := "ex/" + histString(h)
			if r.Want(id) {
				cnt++
				overlap := false
				for i := range h {
					for j := i + 1; j < len(h); j++ {
						if h[i].A <= h[j].B && h[j].A <= h[i].B {
							overlap = true
						}
					}
				}
				if overlap {
					nontriv++
				}
				failed := false
				if k, d := checkIntersect(h, 0, D); k != "" {
					r.Violation(k, k, id, map[string]any{"history": histString(h), "detail": d})
					failed = true
				}
				if k, d := checkNesting(h); k != "" {
					r.Violation(k, "last interval vs earlier: "+nestingShape(h), id, map[string]any{"history": histString(h), "detail": d})
					failed = true
				}
				if failed {
					// extensions of a failing history say nothing new
					return
				}
			}
			if len(h) < maxLen {
				for _, iv := range all {
					h = append(h, iv)
					rec()
					h = h[:len(h)-1]
				}
			}
		}
		rec()
		r.EvalN(cnt, nontriv)
	})
	// length-1 histories
	if r.Batch == 0 {
		for _, iv := range all {
			h := []ival{iv}
			if k, d := checkIntersect(h, 0, D); k != "" {
				r.Violation(k, d, "ex/"+histString(h), map[string]any{"history": histString(h), "detail": d})
			}
			if k, d := checkNesting(h); k != "" {
				r.Violation(k, d, "ex/"+histString(h), map[string]any{"history": histString(h), "detail": d})
			}
			r.Eval("")
		}
	}

	// ---- random longer histories over [0,30] ----
	nRand := r.N(20000, 400000)
	r.Par(nRand, func(i int) {
		rng := r.Rng(fmt.Sprintf("c40/rand/%d", i))
		n := rng.Range(2, 40)
		hi := 30
		if rng.Chance(0.3) {
			hi = 8
		}
		h := make([]ival, n)
		for k := range h {
			a := rng.Intn(hi + 1)
			b := a + rng.Intn(hi+1-a)
			if rng.Chance(0.2) && k > 0 {
				// share an endpoint with an earlier interval
				p := h[rng.Intn(k)]
				if rng.Bool() {
					b = p.B
					if a > b {
						a = b
					}
				} else {
					a = p.A
					if b < a {
						b = a
					}
				}
			}
			h[k] = ival{a, b}
		}
		id := fmt.Sprintf("rand/%d", i)
		if !r.Want(id) {
			return
		}
		r.Eval(histString(h))
		if i < 2 {
			r.Sample("random-history", histString(h))
		}
		if k, d := checkIntersect(h, 0, hi); k != "" {
			r.Violation(k, k, id, map[string]any{"history": histString(h), "detail": d})
		}
		if k, d := checkNesting(h); k != "" {
			r.Violation(k, "last interval vs earlier: "+nestingShapeAtFailure(h), id, map[string]any{"history": histString(h), "detail": d})
		}
	})
	r.Sample("exhaustive-history", histString([]ival{{0, 5}, {2, 3}, {3, 5}}))
}

// nestingShapeAtFailure finds the shortest failing prefix and classifies it.
func nestingShapeAtFailure(h []ival) string {
	for n := 1; n <= len(h); n++ {
		if k, _ := checkNesting(h[:n]); k != "" {
			return nestingShape(h[:n])
		}
	}
	return "none"
}
