package vlib

import (
	"encoding/binary"
	"encoding/json"
	"fmt"
	"os"
	"path/filepath"
	"runtime"
	"runtime/debug"
	"sort"
	"strconv"
	"strings"
	"sync"
	"sync/atomic"
	"testing"
	"time"
)

// Violation is one observed refutation of a property.
type Violation struct {
	Kind   string `json:"kind"`    // stable class of the failure (used for known-finding matching)
	Sig    string `json:"sig"`     // what specifically fails (input class / call site / history shape)
	CaseID string `json:"case_id"` // which generated case
	Replay string `json:"replay"`  // path of the witness file
}

// Run is one execution of one monitor (one batch of its case list).
type Run struct {
	Prop    string
	Tier    string
	Seed    uint64
	Batch   int
	NBatch  int
	OutDir  string
	RepDir  string
	Workers int

	replayID  string
	ReplayRep int

	t     *testing.T
	start time.Time

	evals atomic.Int64

	mu         sync.Mutex
	keys       map[uint64]struct{}
	keyOver    bool
	byConstr   int64
	classes    map[string]int64
	viol       []Violation
	vcount     map[string]int64
	vfiles     map[string]int
	inconcl    map[string]int64
	samples    []any
	firstKey   string // first non-trivial evaluation key: the sample of last resort
	sampleSeen map[string]bool
	extras     map[string]any
	curFile    *os.File
}

const maxKeys = 4 << 20

func envInt(name string, def int) int {
	if v := os.Getenv(name); v != "" {
		if n, err := strconv.Atoi(v); err == nil {
			return n
		}
	}
	return def
}

// Start begins a monitor run for the given property. Configuration comes from
// the environment set by /verif/check.
func Start(t *testing.T, prop string) *Run {
	r := &Run{
		Prop:       prop,
		Tier:       os.Getenv("VERIF_TIER"),
		Batch:      envInt("VERIF_BATCH", 0),
		NBatch:     envInt("VERIF_NBATCH", 1),
		OutDir:     os.Getenv("VERIF_OUT"),
		RepDir:     os.Getenv("VERIF_REPLAYS"),
		Workers:    envInt("VERIF_WORKERS", runtime.GOMAXPROCS(0)),
		ReplayRep:  envInt("VERIF_REPLAY_REPEAT", 50),
		t:          t,
		start:      time.Now(),
		keys:       map[uint64]struct{}{},
		classes:    map[string]int64{},
		vcount:     map[string]int64{},
		vfiles:     map[string]int{},
		inconcl:    map[string]int64{},
		sampleSeen: map[string]bool{},
		extras:     map[string]any{},
	}
	if r.Tier == "" {
		r.Tier = "quick"
	}
	seed := int64(1)
	if v := os.Getenv("VERIF_SEED"); v != "" {
		if n, err := strconv.ParseInt(v, 10, 64); err == nil {
			seed = n
		}
	}
	r.Seed = uint64(seed)
	if r.OutDir == "" {
		r.OutDir = filepath.Join(os.TempDir(), "verif-out-"+prop)
	}
	if r.RepDir == "" {
		r.RepDir = filepath.Join(r.OutDir, "replays")
	}
	_ = os.MkdirAll(r.OutDir, 0o755)
	if p := os.Getenv("VERIF_REPLAY"); p != "" {
		var w struct {
			CaseID string `json:"case_id"`
			Seed   uint64 `json:"seed"`
			Tier   string `json:"tier"`
		}
		b, err := os.ReadFile(p)
		if err != nil {
			t.Fatalf("replay file: %v", err)
		}
		if err := json.Unmarshal(b, &w); err != nil {
			t.Fatalf("replay file: %v", err)
		}
		r.replayID, r.Seed, r.Tier = w.CaseID, w.Seed, w.Tier
		r.Batch, r.NBatch = 0, 1
	}
	if r.Workers < 1 {
		r.Workers = 1
	}
	return r
}

// Quick reports whether this is the quick tier.
func (r *Run) Quick() bool { return r.Tier != "thorough" }

// N picks a tier-dependent count.
func (r *Run) N(quick, thorough int) int {
	if r.Quick() {
		return quick
	}
	return thorough
}

// Replaying reports whether a single recorded case is being re-run.
func (r *Run) Replaying() bool { return r.replayID != "" }

// Rng returns a generator determined by the seed and the stream name only.
func (r *Run) Rng(stream string) *RNG {
	return NewRNG(Mix(r.Seed*0x2545f4914f6cdd1d ^ Hash64(stream)))
}

// Mine reports whether case index i belongs to this batch.
func (r *Run) Mine(i int) bool {
	if r.replayID != "" {
		return true
	}
	return i%r.NBatch == r.Batch
}

// Want reports whether the case with this id should be executed (always true
// unless a replay of one specific case was requested).
func (r *Run) Want(id string) bool {
	return r.replayID == "" || r.replayID == id || strings.HasPrefix(r.replayID, id+"/")
}

// Par runs f(i) for every i in [0,n) that belongs to this batch, on
// r.Workers goroutines. A panic inside f is a harness bug unless the monitor
// recovers itself; it is reported as inconclusive, never silently dropped.
func (r *Run) Par(n int, f func(i int)) {
	var next atomic.Int64
	var wg sync.WaitGroup
	w := r.Workers
	for k := 0; k < w; k++ {
		wg.Add(1)
		go func() {
			defer wg.Done()
			for {
				i := int(next.Add(1) - 1)
				if i >= n {
					return
				}
				if !r.Mine(i) {
					continue
				}
				func() {
					defer func() {
						if p := recover(); p != nil {
							r.Inconclusive(fmt.Sprintf("harness panic in case %d: %v\n%s", i, p, debug.Stack()))
						}
					}()
					f(i)
				}()
			}
		}()
	}
	wg.Wait()
}

// Eval counts one evaluation (one execution of the code under test against
// the oracle). key identifies the case's content for the distinct count; an
// empty key means "trivial, do not count as non-trivial".
func (r *Run) Eval(key string) {
	r.evals.Add(1)
	if key == "" {
		return
	}
	h := Hash64(key)
	r.mu.Lock()
	if r.firstKey == "" {
		r.firstKey = key
	}
	if len(r.keys) < maxKeys {
		r.keys[h] = struct{}{}
	} else if _, ok := r.keys[h]; !ok {
		r.keyOver = true
	}
	r.mu.Unlock()
}

// EvalN counts n evaluations that are distinct and non-trivial by
// construction (disjoint slices of an enumeration).
func (r *Run) EvalN(n, nontrivial int64) {
	r.evals.Add(n)
	r.mu.Lock()
	r.byConstr += nontrivial
	r.mu.Unlock()
}

// Class counts a case under a named class (reported in the evidence).
func (r *Run) Class(name string) { r.ClassN(name, 1) }

// ClassN adds n to a named class.
func (r *Run) ClassN(name string, n int64) {
	r.mu.Lock()
	r.classes[name] += n
	r.mu.Unlock()
}

// Extra records a measured value under a key in the evidence.
func (r *Run) Extra(key string, v any) {
	r.mu.Lock()
	r.extras[key] = v
	r.mu.Unlock()
}

// Sample records an actual case for the evidence (a handful are kept, at most
// `per` per class).
func (r *Run) Sample(class string, v any) {
	r.mu.Lock()
	defer r.mu.Unlock()
	if r.sampleSeen[class] || len(r.samples) >= 8 {
		return
	}
	r.sampleSeen[class] = true
	r.samples = append(r.samples, map[string]any{"class": class, "case": v})
}

// Inconclusive records a case that could not be decided.
func (r *Run) Inconclusive(why string) {
	r.mu.Lock()
	if len(why) > 2000 {
		why = why[:2000]
	}
	r.inconcl[why]++
	r.mu.Unlock()
}

// Violation records a refutation. kind is the stable failure class, sig says
// what specifically fails, witness is written to a replay file.
func (r *Run) Violation(kind, sig, caseID string, witness any) {
	// error texts of the Go protobuf runtime use a space or a no-break space after "proto:" depending on the
	// binary (deliberately unstable output); signatures must not depend on that
	sig = strings.ReplaceAll(sig, "\u00a0", " ")
	r.mu.Lock()
	defer r.mu.Unlock()
	k := kind + "\x00" + sig
	r.vcount[k]++
	// the first witness of every distinct (kind, signature) is always kept (up to 2000 per kind), so that a new
	// signature is never crowded out by frequent ones; further witnesses of a signature only while the kind has few files
	if r.vfiles[k] >= 3 || (r.vfiles[k] >= 1 && r.vfiles["\x01"+kind] >= 40) || r.vfiles["\x01"+kind] >= 2000 {
		return
	}
	r.vfiles[k]++
	r.vfiles["\x01"+kind]++
	dir := filepath.Join(r.RepDir, r.Prop)
	_ = os.MkdirAll(dir, 0o755)
	name := fmt.Sprintf("%s-%016x.json", sanitize(kind), Hash64(sig+"\x00"+caseID))
	p := filepath.Join(dir, name)
	b, err := json.MarshalIndent(map[string]any{
		"property": r.Prop, "kind": kind, "sig": sig, "case_id": caseID,
		"seed": r.Seed, "tier": r.Tier, "witness": witness,
	}, "", " ")
	if err != nil {
		b, _ = json.MarshalIndent(map[string]any{
			"property": r.Prop, "kind": kind, "sig": sig, "case_id": caseID,
			"seed": r.Seed, "tier": r.Tier, "witness": fmt.Sprintf("%+v", witness),
		}, "", " ")
	}
	_ = os.WriteFile(p, b, 0o644)
	r.viol = append(r.viol, Violation{Kind: kind, Sig: sig, CaseID: caseID, Replay: p})
}

func sanitize(s string) string {
	var b strings.Builder
	for _, c := range s {
		if c >= 'a' && c <= 'z' || c >= 'A' && c <= 'Z' || c >= '0' && c <= '9' || c == '-' || c == '_' || c == '.' {
			b.WriteRune(c)
		} else {
			b.WriteByte('_')
		}
	}
	if b.Len() > 60 {
		return b.String()[:60]
	}
	return b.String()
}

// Begin notes the case about to run in a side file, so that the driver can
// name the case that killed the process (fatal error, race abort, panic in a
// library goroutine). Use only for coarse-grained cases.
func (r *Run) Begin(caseID string, input any) {
	r.mu.Lock()
	defer r.mu.Unlock()
	if r.curFile == nil {
		f, err := os.Create(filepath.Join(r.OutDir, fmt.Sprintf("cur.%d.json", r.Batch)))
		if err != nil {
			return
		}
		r.curFile = f
	}
	b, _ := json.Marshal(map[string]any{"case_id": caseID, "seed": r.Seed, "tier": r.Tier, "witness": input})
	_ = r.curFile.Truncate(0)
	_, _ = r.curFile.WriteAt(append(b, '\n'), 0)
}

// Try runs f and returns a recovered panic (value and stack) if any.
func Try(f func()) (pv any, stack string) {
	defer func() {
		if p := recover(); p != nil {
			pv = p
			stack = string(debug.Stack())
		}
	}()
	f()
	return nil, ""
}

// PanicSite extracts the first frame inside the module under test from a
// stack, with line numbers stripped: a stable signature of a crash site.
func PanicSite(stack string) string {
	lines := strings.Split(stack, "\n")
	for _, l := range lines {
		l = strings.TrimSpace(l)
		if strings.HasPrefix(l, "github.com/bufbuild/protocompile/") && !strings.Contains(l, "/verifmon/") {
			if i := strings.LastIndex(l, "("); i > 0 {
				l = l[:i]
			}
			l = strings.ReplaceAll(l, "[...]", "")
			return strings.TrimPrefix(l, "github.com/bufbuild/protocompile/")
		}
	}
	return "unknown"
}

// Finish writes this batch's result file. It fails the test when violations
// were seen (the driver decides exit codes from the result file, not from the
// test status).
func (r *Run) Finish() {
	r.mu.Lock()
	defer r.mu.Unlock()
	type vc struct {
		Kind  string `json:"kind"`
		Sig   string `json:"sig"`
		Count int64  `json:"count"`
	}
	var vcs []vc
	for k, n := range r.vcount {
		p := strings.SplitN(k, "\x00", 2)
		vcs = append(vcs, vc{p[0], p[1], n})
	}
	sort.Slice(vcs, func(i, j int) bool { return vcs[i].Kind+vcs[i].Sig < vcs[j].Kind+vcs[j].Sig })
	res := map[string]any{
		"property":        r.Prop,
		"tier":            r.Tier,
		"seed":            r.Seed,
		"batch":           r.Batch,
		"nbatch":          r.NBatch,
		"evaluations":     r.evals.Load(),
		"distinct_keys":   len(r.keys),
		"keys_overflowed": r.keyOver,
		"by_construction": r.byConstr,
		"classes":         r.classes,
		"violations":      r.viol,
		"violation_count": vcs,
		"inconclusive":    r.inconcl,
		"samples":         r.samplesOrFirstKey(),
		"extras":          r.extras,
		"wall_s":          time.Since(r.start).Seconds(),
		"replaying":       r.replayID != "",
	}
	b, err := json.MarshalIndent(res, "", " ")
	if err != nil {
		r.t.Fatalf("result marshal: %v", err)
	}
	if err := os.WriteFile(filepath.Join(r.OutDir, fmt.Sprintf("result.%d.json", r.Batch)), b, 0o644); err != nil {
		r.t.Fatalf("result write: %v", err)
	}
	kb := make([]byte, 0, 8*len(r.keys))
	for h := range r.keys {
		kb = binary.LittleEndian.AppendUint64(kb, h)
	}
	_ = os.WriteFile(filepath.Join(r.OutDir, fmt.Sprintf("keys.%d.bin", r.Batch)), kb, 0o644)
	if r.curFile != nil {
		_ = r.curFile.Close()
		_ = os.Remove(r.curFile.Name())
	}
	if len(r.viol) > 0 {
		r.t.Logf("%d violation record(s)", len(r.viol))
	}
}

// samplesOrFirstKey returns the recorded samples; a monitor that recorded none (its sampling condition was not
// met in this run) still shows one actual case: the key of its first non-trivial evaluation (an input text or a
// rendering of the case), clipped.
func (r *Run) samplesOrFirstKey() []any {
	if len(r.samples) > 0 || r.firstKey == "" {
		return r.samples
	}
	k := r.firstKey
	if len(k) > 1500 {
		k = k[:1500] + "…"
	}
	k = strings.Map(func(c rune) rune {
		if c == '\n' || c == '\t' || (c >= 0x20 && c != 0x7f) {
			return c
		}
		return '␀'
	}, k)
	return []any{map[string]any{"class": "first non-trivial case of this run (evaluation key)", "case": k}}
}
