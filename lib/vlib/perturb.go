package vlib

import (
	"bufio"
	"regexp"
	"runtime"
	"sort"
	"strings"
	"sync"
	"sync/atomic"
	"time"

	"github.com/bufbuild/protocompile/internal/verifhook"
)

// Perturber is the process-global handler of the verifhook points compiled
// into /repo with -tags verif. It (a) perturbs schedules: pseudo-randomly does
// nothing, yields, or sleeps a few microseconds at each point, with longer
// delays at a per-run "focus" site; (b) counts events per site; (c) feeds
// per-case traces: a case registers a key prefix ("k17/") and every event
// whose key starts with it is handed to that case's callback.
//
// Delays never decide a verdict; they only widen the set of interleavings
// that are observed.
type Perturber struct {
	seed   atomic.Uint64
	focus  atomic.Pointer[string]
	off    atomic.Bool
	counts sync.Map // site -> *atomic.Int64
	cases  sync.Map // prefix -> *CaseTrace
	anyKey atomic.Pointer[CaseTrace]
}

// CaseTrace accumulates the events of one case.
type CaseTrace struct {
	mu     sync.Mutex
	N      int64
	Hash   uint64           // order-sensitive hash of the (site,key) sequence: an interleaving signature
	Counts map[string]int64 // per site
	PerKey map[string]map[string]int64
	On     func(site, key string) // optional callback, called under mu
}

var (
	perturbOnce sync.Once
	perturber   *Perturber
)

// InstallPerturber installs the handler once per process and returns it.
func InstallPerturber() *Perturber {
	perturbOnce.Do(func() {
		perturber = &Perturber{}
		perturber.seed.Store(1)
		verifhook.Set(perturber.handle)
	})
	return perturber
}

// HooksCompiledIn reports whether /repo was built with the verif tag.
func HooksCompiledIn() bool { return verifhook.On() }

// SetSeed changes the perturbation seed; focus names a site that gets longer delays ("" for none).
func (p *Perturber) SetSeed(seed uint64, focus string) {
	p.seed.Store(seed)
	if focus == "" {
		p.focus.Store(nil)
	} else {
		p.focus.Store(&focus)
	}
}

// Disable turns delays off (events are still counted).
func (p *Perturber) Disable(off bool) { p.off.Store(off) }

// Register starts a trace for events whose key starts with prefix.
func (p *Perturber) Register(prefix string) *CaseTrace {
	ct := &CaseTrace{Counts: map[string]int64{}, PerKey: map[string]map[string]int64{}}
	p.cases.Store(prefix, ct)
	return ct
}

// RegisterAll starts a trace that receives every event without a key (sites
// that cannot name their case); only meaningful when one case runs at a time.
func (p *Perturber) RegisterAll() *CaseTrace {
	ct := &CaseTrace{Counts: map[string]int64{}, PerKey: map[string]map[string]int64{}}
	p.anyKey.Store(ct)
	return ct
}

// UnregisterAll stops the keyless trace.
func (p *Perturber) UnregisterAll() { p.anyKey.Store(nil) }

// Unregister stops a trace.
func (p *Perturber) Unregister(prefix string) { p.cases.Delete(prefix) }

// SiteCounts returns how often each site was reached in this process.
func (p *Perturber) SiteCounts() map[string]int64 {
	out := map[string]int64{}
	p.counts.Range(func(k, v any) bool {
		out[k.(string)] = v.(*atomic.Int64).Load()
		return true
	})
	return out
}

func (p *Perturber) handle(site, key string) {
	cv, ok := p.counts.Load(site)
	if !ok {
		cv, _ = p.counts.LoadOrStore(site, new(atomic.Int64))
	}
	n := cv.(*atomic.Int64).Add(1)
	var ct *CaseTrace
	if key != "" {
		if i := strings.IndexByte(key, '/'); i > 0 {
			if v, ok := p.cases.Load(key[:i+1]); ok {
				ct = v.(*CaseTrace)
			}
		}
	}
	if ct == nil {
		ct = p.anyKey.Load()
	}
	if ct != nil {
		ct.mu.Lock()
		ct.N++
		ct.Hash = Mix(ct.Hash*1099511628211 ^ Hash64(site) ^ Hash64(key)*31)
		ct.Counts[site]++
		if key != "" {
			m := ct.PerKey[key]
			if m == nil {
				m = map[string]int64{}
				ct.PerKey[key] = m
			}
			m[site]++
		}
		if ct.On != nil {
			ct.On(site, key)
		}
		ct.mu.Unlock()
	}
	if p.off.Load() {
		return
	}
	h := Mix(p.seed.Load() ^ Hash64(site)*0x9e3779b97f4a7c15 ^ uint64(n)*0xbf58476d1ce4e5b9)
	if f := p.focus.Load(); f != nil && *f == site && h&1 == 0 {
		time.Sleep(time.Duration(50+(h>>8)%1950) * time.Microsecond)
		return
	}
	switch r := h % 100; {
	case r < 70:
	case r < 90:
		for i := uint64(0); i <= (h>>8)%8; i++ {
			runtime.Gosched()
		}
	default:
		time.Sleep(time.Duration(1+(h>>8)%200) * time.Microsecond)
	}
}

// Snapshot returns a copy of the trace's counters.
func (ct *CaseTrace) Snapshot() (n int64, hash uint64, counts map[string]int64) {
	ct.mu.Lock()
	defer ct.mu.Unlock()
	counts = map[string]int64{}
	for k, v := range ct.Counts {
		counts[k] = v
	}
	return ct.N, ct.Hash, counts
}

// ---------------------------------------------------------------------------
// Goroutine dumps: the logical quiescence criterion (DESIGN.md §1).

// Goroutine is one goroutine of a dump.
type Goroutine struct {
	ID     string
	State  string
	Frames []string // function names, innermost first
	Text   string
}

var goHeader = regexp.MustCompile(`^goroutine (\d+) \[([^\]]+)\]:$`)

// DumpGoroutines parses runtime.Stack(all).
func DumpGoroutines() []Goroutine {
	buf := make([]byte, 1<<20)
	for {
		n := runtime.Stack(buf, true)
		if n < len(buf) {
			buf = buf[:n]
			break
		}
		buf = make([]byte, 2*len(buf))
	}
	var out []Goroutine
	var cur *Goroutine
	sc := bufio.NewScanner(strings.NewReader(string(buf)))
	sc.Buffer(make([]byte, 1<<20), 1<<24)
	for sc.Scan() {
		line := sc.Text()
		if m := goHeader.FindStringSubmatch(line); m != nil {
			out = append(out, Goroutine{ID: m[1], State: m[2]})
			cur = &out[len(out)-1]
			cur.Text = line + "\n"
			continue
		}
		if cur == nil {
			continue
		}
		cur.Text += line + "\n"
		if line == "" || strings.HasPrefix(line, "\t") || strings.HasPrefix(line, "created by ") {
			continue
		}
		f := line
		if i := strings.LastIndex(f, "("); i > 0 {
			f = f[:i]
		}
		cur.Frames = append(cur.Frames, f)
	}
	return out
}

// LibraryGoroutines returns the goroutines that have a frame of the module
// under test matching pat (a substring of the function name) and that are not
// harness goroutines whose library frames lie only below a harness call-out
// (filter decides per goroutine).
func LibraryGoroutines(gs []Goroutine, pat string) []Goroutine {
	var out []Goroutine
	for _, g := range gs {
		for _, f := range g.Frames {
			if strings.Contains(f, pat) {
				out = append(out, g)
				break
			}
		}
	}
	return out
}

// Parked reports whether a goroutine state is a blocked state that cannot
// make progress on its own.
func Parked(state string) bool {
	s := state
	if i := strings.Index(s, ","); i >= 0 {
		s = s[:i]
	}
	switch s {
	case "chan receive", "chan send", "select", "semacquire", "sync.Cond.Wait", "sync.Mutex.Lock", "sync.RWMutex.Lock", "sync.RWMutex.RLock", "sync.WaitGroup.Wait", "select (no cases)", "chan receive (nil chan)", "chan send (nil chan)":
		return true
	}
	return false
}

// StableAndParked takes two dumps `gap` apart and reports whether the
// goroutines selected by pat are non-empty, all parked, and identical in both
// dumps: the logical criterion for "these goroutines will never run again".
func StableAndParked(pat string, gap time.Duration) (stuck bool, dump string) {
	sig := func(gs []Goroutine) (string, bool) {
		var ss []string
		all := true
		for _, g := range gs {
			if !Parked(g.State) {
				all = false
			}
			st := g.State
			if i := strings.Index(st, ","); i >= 0 {
				st = st[:i] // drop "N minutes"
			}
			ss = append(ss, g.ID+"|"+st+"|"+strings.Join(g.Frames, ";"))
		}
		sort.Strings(ss)
		return strings.Join(ss, "\n"), all
	}
	a := LibraryGoroutines(DumpGoroutines(), pat)
	if len(a) == 0 {
		return false, ""
	}
	sa, pa := sig(a)
	time.Sleep(gap)
	b := LibraryGoroutines(DumpGoroutines(), pat)
	sb, pb := sig(b)
	var text strings.Builder
	for _, g := range b {
		text.WriteString(g.Text)
		text.WriteString("\n")
	}
	return pa && pb && sa == sb && len(b) > 0, text.String()
}
