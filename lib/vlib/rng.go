// Package vlib is the Go half of the /verif runtime-monitoring framework.
//
// It is compiled INTO the module under test through `go test -overlay`, so it
// may import that module's internal packages, but it must not depend on
// anything that is not already in the module graph (plus porcupine).
package vlib

import (
	"hash/fnv"
	"math"
)

// RNG is a splitmix64 generator. Every random choice a monitor makes comes
// from one of these, seeded from VERIF_SEED and a stream name, so that a case
// list is a pure function of (seed, tier).
type RNG struct{ s uint64 }

// NewRNG returns a generator for the given seed.
func NewRNG(seed uint64) *RNG { return &RNG{s: seed} }

// Hash64 hashes a string with FNV-1a and a splitmix finaliser.
func Hash64(s string) uint64 {
	h := fnv.New64a()
	_, _ = h.Write([]byte(s))
	return Mix(h.Sum64())
}

// Mix is the splitmix64 finaliser.
func Mix(z uint64) uint64 {
	z += 0x9e3779b97f4a7c15
	z = (z ^ (z >> 30)) * 0xbf58476d1ce4e5b9
	z = (z ^ (z >> 27)) * 0x94d049bb133111eb
	return z ^ (z >> 31)
}

// Uint64 returns the next value.
func (r *RNG) Uint64() uint64 {
	r.s += 0x9e3779b97f4a7c15
	z := r.s
	z = (z ^ (z >> 30)) * 0xbf58476d1ce4e5b9
	z = (z ^ (z >> 27)) * 0x94d049bb133111eb
	return z ^ (z >> 31)
}

// Intn returns a value in [0,n). n must be > 0.
func (r *RNG) Intn(n int) int {
	if n <= 0 {
		return 0
	}
	return int(r.Uint64() % uint64(n))
}

// Range returns a value in [lo,hi] inclusive.
func (r *RNG) Range(lo, hi int) int {
	if hi <= lo {
		return lo
	}
	return lo + r.Intn(hi-lo+1)
}

// Bool returns true with probability 1/2.
func (r *RNG) Bool() bool { return r.Uint64()&1 == 1 }

// Chance returns true with probability p.
func (r *RNG) Chance(p float64) bool { return r.Float64() < p }

// Float64 returns a value in [0,1).
func (r *RNG) Float64() float64 {
	return float64(r.Uint64()>>11) / float64(uint64(1)<<53)
}

// NormFloat is a cheap approximately-normal value (sum of uniforms).
func (r *RNG) NormFloat() float64 {
	s := 0.0
	for i := 0; i < 6; i++ {
		s += r.Float64()
	}
	return (s - 3) / math.Sqrt(0.5)
}

// Fork derives an independent generator named by label.
func (r *RNG) Fork(label string) *RNG {
	return &RNG{s: Mix(r.Uint64() ^ Hash64(label))}
}

// Perm returns a random permutation of [0,n).
func (r *RNG) Perm(n int) []int {
	p := make([]int, n)
	for i := range p {
		p[i] = i
	}
	for i := n - 1; i > 0; i-- {
		j := r.Intn(i + 1)
		p[i], p[j] = p[j], p[i]
	}
	return p
}

// Pick returns a random element of xs.
func Pick[T any](r *RNG, xs []T) T {
	return xs[r.Intn(len(xs))]
}

// Shuffle shuffles xs in place.
func Shuffle[T any](r *RNG, xs []T) {
	for i := len(xs) - 1; i > 0; i-- {
		j := r.Intn(i + 1)
		xs[i], xs[j] = xs[j], xs[i]
	}
}
