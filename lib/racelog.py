"""Parsing of Go race-detector reports and goroutine dumps."""
import re

MOD = "github.com/bufbuild/protocompile"
FUNC_RE = re.compile(r"^  (\S.*)$")


def _frames(section):
    """Function names of one stack section of a race report, innermost first."""
    out = []
    for line in section.split("\n")[1:]:
        if line.startswith("      "):
            continue
        m = FUNC_RE.match(line)
        if m:
            f = m.group(1)
            f = re.sub(r"\(\)$", "", f)
            f = re.sub(r"\(.*\)$", "", f) if f.endswith(")") and "(*" not in f.split("/")[-1][:3] else f
            out.append(f.strip())
    return out


def is_lib(f):
    return f.startswith(MOD + "/") or f.startswith(MOD + ".")


def is_harness(f):
    return "/verifmon/" in f


def strip_generic(f):
    f = re.sub(r"\[\.\.\.\]", "", f)
    f = re.sub(r"\.func\d+(\.\d+)*$", "", f)
    f = re.sub(r"\.gowrap\d+$", "", f)
    return f.replace(MOD + "/", "").replace(MOD + ".", "protocompile.")


def classify(frames):
    """('lib'|'callback'|'harness'|'other', accessing module function)"""
    first = None
    for f in frames:
        if is_lib(f):
            first = f
            break
    if first is None:
        return "other", frames[0] if frames else "?"
    if not is_harness(first):
        return "lib", strip_generic(first)
    # harness frame on top: was it called from library code (a callback)?
    idx = frames.index(first)
    for f in frames[idx + 1:]:
        if is_lib(f) and not is_harness(f):
            return "callback", strip_generic(first)
    return "harness", strip_generic(first)


def parse(text):
    reps = []
    for block in text.split("==================")[1:]:
        if "WARNING: DATA RACE" not in block:
            continue
        secs = [s for s in re.split(r"\n\s*\n", block.strip("\n")) if s.strip()]
        acc = [s for s in secs if re.match(r"\s*(WARNING: DATA RACE\n)?\s*(Read|Write|Previous read|Previous write|Atomic|Previous atomic)", s)]
        stacks = []
        for s in acc[:2]:
            s2 = s.replace("WARNING: DATA RACE\n", "")
            stacks.append(_frames(s2))
        if len(stacks) < 2:
            stacks += [[]] * (2 - len(stacks))
        ca, cb = classify(stacks[0]), classify(stacks[1])
        reps.append({"text": block.strip(), "stacks": stacks, "class": (ca[0], cb[0]), "funcs": (ca[1], cb[1])})
    return reps


def dedupe(reps, accept=("lib",)):
    """Reports whose two accesses both lie in accepted classes, de-duplicated by the pair of accessing
    functions. Returns {sig: (report, count)}."""
    out = {}
    for r in reps:
        if r["class"][0] not in accept or r["class"][1] not in accept:
            continue
        a, b = sorted(r["funcs"])
        sig = "%s <-> %s" % (a, b)
        if sig in out:
            out[sig] = (out[sig][0], out[sig][1] + 1)
        else:
            out[sig] = (r, 1)
    return out


def first_repo_frame(text):
    """First library frame in a crash dump (function name, no line)."""
    for line in text.split("\n"):
        line = line.strip()
        if line.startswith(MOD) and "/verifmon/" not in line:
            line = re.sub(r"\(.*$", "", line)
            return strip_generic(line)
    return "unknown"
