# Per-property configuration of the /verif checks.
#
# group      : monitor package under /verif/monitors/<group>
# test       : Go test function that implements the monitor
# race       : build/run the monitor under the Go race detector
# batches    : (quick, thorough) number of child processes (one batch of the case list per child)
# workers    : goroutine workers inside each child (None = GOMAXPROCS)
# watchdog   : (quick, thorough) wall-clock seconds after which a child is stopped (SIGQUIT);
#              a watchdog stop is INCONCLUSIVE unless the monitor's own quiescence criterion
#              already recorded a violation
# crash      : what the death of a child without a result file means:
#              "violation" (the property forbids crashes of the code under test) or "inconclusive"
# level      : evidence level
# min_evals  : a run that observed fewer evaluations than this is inconclusive (exit 2)

GROUPS = {
    "small":      {"dir": "internal/verifmon/small"},
    "expsrc":     {"dir": "experimental/verifmon/expsrc"},
    "explex":     {"dir": "experimental/verifmon/explex"},
    "incr":       {"dir": "experimental/verifmon/incr"},
    "exppipe":    {"dir": "experimental/verifmon/exppipe"},
    "stabletext": {"dir": "internal/verifmon/stabletext"},
    "stablecomp": {"dir": "internal/verifmon/stablecomp"},
    "stableconc": {"dir": "internal/verifmon/stableconc"},
}

# shared library packages injected next to the monitors: virtual dir -> /verif dir
SHARED = {
    "internal/verifmon/vlib": "lib/vlib",
    "internal/verifmon/gen": "lib/gen",
}


def P(group, test, race=False, batches=(1, 1), workers=None, watchdog=(600, 3600),
      crash="violation", level="exploration", min_evals=10):
    return dict(group=group, test=test, race=race, batches=batches, workers=workers,
                watchdog=watchdog, crash=crash, level=level, min_evals=min_evals)


PROPS = {
    "C38": P("small", "TestC38", race=True),
    "C39": P("small", "TestC39"),
    "C40": P("small", "TestC40"),
    "C41": P("small", "TestC41"),
}
