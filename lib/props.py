# Per-property configuration of the /verif checks.
#
# group      : monitor package under /verif/monitors/<group>
# test       : Go test function that implements the monitor
# race       : build/run the monitor under the Go race detector
# batches    : (quick, thorough) number of child processes (one batch of the case list per child)
# workers    : goroutine workers inside each child (None = GOMAXPROCS)
# watchdog   : (quick, thorough) wall-clock seconds after which a child is stopped (SIGQUIT);
#              a watchdog stop is INCONCLUSIVE unless the monitor's own quiescence criterion
#              already recorded a violation
# crash      : what the death of a child without a result file means:
#              "violation" (the property forbids crashes of the code under test) or "inconclusive"
# level      : evidence level
# min_evals  : a run that observed fewer evaluations than this is inconclusive (exit 2)

GROUPS = {
    "small":      {"dir": "internal/verifmon/small"},
    "expsrc":     {"dir": "experimental/verifmon/expsrc"},
    "explex":     {"dir": "experimental/verifmon/explex"},
    "incr":       {"dir": "experimental/verifmon/incr"},
    "exppipe":    {"dir": "experimental/verifmon/exppipe"},
    "stabletext": {"dir": "internal/verifmon/stabletext"},
    "stablecomp": {"dir": "internal/verifmon/stablecomp"},
    "stableconc": {"dir": "internal/verifmon/stableconc"},
    "stableopt":  {"dir": "internal/verifmon/stableopt"},
    "stablelink": {"dir": "internal/verifmon/stablelink"},
}

# shared library packages injected next to the monitors: virtual dir -> /verif dir
SHARED = {
    "internal/verifmon/vlib": "lib/vlib",
    "internal/verifmon/gen": "lib/gen",
}


def P(group, test, race=False, batches=(1, 1), workers=None, watchdog=(600, 3600),
      crash="violation", level="exploration", min_evals=10, race_accept=("lib",)):
    return dict(group=group, test=test, race=race, batches=batches, workers=workers,
                watchdog=watchdog, crash=crash, level=level, min_evals=min_evals, race_accept=race_accept)


PROPS = {
    # stablecomp: generator / corpus differentials on the stable compiler
    "C01": P("stablecomp", "TestC01"),
    "C02": P("stablecomp", "TestC02"),
    "C03": P("stablecomp", "TestC03"),
    "C04": P("stablecomp", "TestC04"),
    "C09": P("stablecomp", "TestC09", race=True, batches=(2, 4), workers=8),
    "C10": P("stablecomp", "TestC10"),
    "C15": P("stablelink", "TestC15"),
    "C18": P("stablelink", "TestC18"),
    "C19": P("stablelink", "TestC19"),
    "C20": P("stableopt", "TestC20"),
    "C21": P("stableopt", "TestC21"),
    "C22": P("stableopt", "TestC22"),
    "C23": P("stableopt", "TestC23"),
    "C24": P("stablelink", "TestC24"),
    # stableconc: schedules / faults on the stable compiler
    "C05": P("stableconc", "TestC05", race=True, batches=(4, 8), workers=4),
    "C06": P("stableconc", "TestC06", race=True, batches=(4, 8), workers=4),
    "C07": P("stableconc", "TestC07", race=True, batches=(12, 16), workers=1, level="fault_enumeration"),
    "C08": P("stableconc", "TestC08", race=True, batches=(4, 8), workers=4, race_accept=("lib", "callback")),
    "C16": P("stableconc", "TestC16", race=True, batches=(4, 8), workers=4),
    "C17": P("stableconc", "TestC17"),
    # stabletext: lexer/parser level
    "C11": P("stabletext", "TestC11"),
    "C12": P("stabletext", "TestC12", batches=(16, 16), workers=1),
    "C13": P("stabletext", "TestC13"),
    "C14": P("stabletext", "TestC14"),
    "C25": P("stabletext", "TestC25"),
    "C26": P("stabletext", "TestC26"),
    # experimental compiler
    "C27": P("exppipe", "TestC27"),
    "C35": P("exppipe", "TestC35"),
    "C36": P("exppipe", "TestC36", race=True),
    "C28": P("explex", "TestC28", batches=(4, 16), workers=4),
    "C29": P("explex", "TestC29", batches=(4, 16), workers=4),
    "C30": P("explex", "TestC30"),
    "C31": P("explex", "TestC31"),
    "C32": P("expsrc", "TestC32"),
    "C37": P("expsrc", "TestC37"),
    "C33": P("incr", "TestC33", race=True, batches=(4, 8), workers=4),
    "C34": P("incr", "TestC34", race=True, batches=(4, 8), workers=4),
    # small internal data structures
    "C38": P("small", "TestC38", race=True),
    "C39": P("small", "TestC39"),
    "C40": P("small", "TestC40"),
    "C41": P("small", "TestC41"),
}
