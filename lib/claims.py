# What each registered check claims (level text, trusted base, deciding technique).
CLAIMS = {
    "C38": dict(
        technique="runtime monitoring: exhaustive inline-domain round trip + reference-map differential + porcupine linearizability of recorded Intern/Query histories under the Go race detector",
        text="Explores the real intern.Table: every inline-encodable string up to the tier bound is interned and mapped back (one-to-one follows from Value(Intern(s))==s on the whole enumerated domain), random multisets are compared with a reference map, and concurrent histories of 2-64 goroutines recorded at the API boundary are checked per string with porcupine while the race detector watches. Held on what was observed; schedules are sampled, not enumerated.",
        note="Trusts the Go race detector, porcupine v1.3.0 and the 10-line sequential model (first Intern fixes the id; Query present iff interned)."),
    "C39": dict(
        technique="runtime monitoring: differential against strconv.ParseFloat (bit-exact) and math/big rationals (exactness flag) on generated numerals",
        text="Runs decimal.Parse+Float64 on generated decimal and hex-float numerals (fast-path region, long mantissas, exact halfway points ±δ, subnormal and overflow edges, 54-bit hex mantissas, an exhaustive m·10^e grid) and compares value bits with strconv and the exact flag with big.Rat.",
        note="Trusts strconv.ParseFloat to be correctly rounded and math/big to be exact; only numerals in the syntax common to both parsers are decided."),
    "C40": dict(
        technique="runtime monitoring: reference-model differential (list of inserted intervals) over exhaustive short and random long insertion histories",
        text="Every insertion history up to the tier bound over the 21 intervals of [0,5] (exhaustive) and random histories up to 40 insertions are replayed on the real Intersect and Nesting; after every insertion entries, every point lookup, the disjointness result and the nesting sets are compared with the naive model.",
        note="Trusts the naive model (a slice of inserted intervals); values are insertion indices so lookups identify the insertions they saw."),
    "C41": dict(
        technique="runtime monitoring: specification oracle (reachability + child-before-parent order; longest-prefix map) over exhaustive small digraphs / key sequences and random large ones",
        text="All digraphs on <=3 nodes with self-loops and on 4 nodes (with self-loops in the thorough tier) x all root lists of length <=2, Sorter reuse after early stop, random graphs to 14 nodes; tries over all insertion sequences of bounded length over a 4-symbol alphabet incl. 0x00/0xff and random sets large enough to force the uint8->uint16->uint32 index growth. Termination is decided by a step budget, not by time.",
        note="Trusts the DFS reference and the map-based trie model. The by-design panic on cyclic input is a recorded known finding (F-C41-toposort-cycle-panic); any other behaviour on cyclic input (hang, duplicate, missing node) is still a violation."),

    "C01": dict(
        technique="runtime monitoring: recorded-oracle replay (protoc-verified R3 verdict tables) + by-construction generated programs + rule-tagged mutants, observed at Compiler.Compile",
        text="Runs the real compiler on (a) all 452 protoc-verified cases of TestLinkerValidation/TestBasicValidation (verdict and recorded message set; these tests cannot run offline), (b) generated multi-file programs in several renderings that must be accepted, (c) mutants that break exactly one catalogued rule and must be rejected by that rule. Decided relative to protoc only on this recorded-and-derived domain (DESIGN.md §3); held on the cases explored.",
        note="Trusts the R3 tables as protoc's verdicts, protodesc as cross-check that a generated model is valid, and the R3 anchoring of each mutation operator. protoc itself is not available."),
    "C02": dict(
        technique="runtime monitoring: differential against protoc's recorded descriptors (R1, R2) incl. derived re-renderings, and against by-construction models",
        text="Compiles every corpus file for which protoc's own descriptor is recorded (protobuf-go rawDesc constants, repository protosets) from its source AND from randomised re-renderings of protoc's descriptor (layout, option syntax, numeric/string spelling), plus generated models; compares field by field after decoding options on both sides against one schema.",
        note="Trusts the recorded descriptors, the renderer (calibrated: canonical re-rendering of every protoc descriptor compiles back to it) and an independent reference strip of source-retention options (calibrated on protoc's retention.proto output)."),
    "C04": dict(
        technique="runtime monitoring: differential of the compiler's protoreflect view against protodesc.NewFile of the compiled proto, attribute by attribute",
        text="For every accepted generated model (emphasis on editions feature overrides) and corpus file, rebuilds the descriptors with the Go protobuf runtime and walks both in parallel comparing ~60 attributes per element, lookups included; also requires that the runtime accepts every compiled generated file.",
        note="Trusts google.golang.org/protobuf v1.36.11 (built with protolegacy) as the reference."),
    "C05": dict(
        technique="runtime monitoring: self-differential under parallelism/order/schedule perturbation (build-tagged hook points) with the Go race detector",
        text="Each generated valid or invalid multi-file set is compiled sequentially as reference and then under MaxParallelism 2-16, shuffled request orders and subsets, fresh shared Symbols and perturbed schedules; success and the deterministic bytes of every produced descriptor must agree. Race reports in compiler code are violations. Schedules are sampled; the number of distinct hook-event orders observed is reported.",
        note="Trusts the race detector and deterministic marshalling; perturbation only at existing suspension points."),
    "C06": dict(
        technique="runtime monitoring: exhaustive small import digraphs x requested subsets x parallelism under schedule perturbation; reference graph analysis; logical quiescence criterion for hangs; hook-fed permit accounting",
        text="All import graphs on <=3 files (self-imports included) and on 4 files, every requested subset, MaxParallelism 1/2/4/16, plus random graphs with long cycles and missing imports: a cycle error must be reported iff a cycle is reachable, every reported sequence must be a closed walk of real edges, the call must return, and semaphore permits stay within [0, MaxParallelism]. The abstract-model half of the property is out of reach for this technique.",
        note="Known finding F-C06-cycle-masked-by-missing-import. Deadlock verdicts come from goroutine dumps (all compiler goroutines parked, two dumps identical), never from elapsed time."),
    "C07": dict(
        technique="fault enumeration at the resolver boundary (error / panic(v) / short read / cancellation at the k-th call) with goroutine-dump leak detection, one case per process at a time",
        text="Every single fault on every file of four fixed graphs, every pair on the diamond, faults on the optional descriptor.proto probe, cancellation inside every resolver call, x MaxParallelism 1/2/8 x perturbation seeds: Compile must return, wrap the injected error or carry the panic value in a PanicError, let no panic escape, and leave no compiler goroutine behind.",
        note="A cancellation that arrives when nothing remains to be done may let Compile succeed; that is recorded, not decided."),
    "C08": dict(
        technique="runtime monitoring at the reporter callback boundary: in-flight counter, abort-at-k policies, deliberately unsynchronised reporter under the race detector",
        text="Valid sets with warnings and invalid sets with several planted errors are compiled with a never-aborting reporter and with reporters aborting at every k; checks non-overlapping callbacks, no error after abort, the returned error identity, ErrInvalidSource, and that warnings alone never fail a compilation.",
        note="Races between two reporter callbacks called from library goroutines count as violations (race_accept lib+callback)."),
    "C09": dict(
        technique="runtime monitoring: self-differential over input-form assignments with before/after snapshots of supplied objects, concurrent reuse under the race detector",
        text="For generated sets every sampled assignment of {source, AST, parse result, unlinked proto} per file x four source-info modes is compiled twice concurrently sharing the supplied objects; descriptors (and source info for AST-carrying forms) must equal the all-source result and supplied protos/parse results must be byte-identical afterwards.",
        note="Trusts deterministic marshalling as equality."),
    "C10": dict(
        technique="runtime monitoring: fixpoint differential (compile, re-supply outputs as Proto / Desc, compare bytes, iterate once more)",
        text="Every accepted generated and corpus set is recompiled from its own descriptor protos (second and third generation byte-identical) and from protodesc-built descriptors.",
        note="In Desc mode `edition` and extension proto3_optional are masked because protodesc.ToFileDescriptorProto cannot recover them from a wrapped descriptor (instrument limit)."),
    "C11": dict(technique="runtime monitoring: byte-for-byte round trip of an independent AST printer over corpus, trivia-randomised re-renderings, generated and mutated texts",
        text="The property is its own oracle: leading comments, whitespace and raw text of every terminal in ast.Walk order plus EOF trivia must reproduce the input (minus BOM).", note="Trusts the reading of 'a token's comments' as NodeInfo leading+trailing comments."),
    "C12": dict(technique="runtime monitoring: hostile byte inputs (random, token soup, truncations, mutations, invalid UTF-8, deep nesting) through parser.Parse/ResultFromAST with recover, two reporter policies and a byte-scan position reference; child process per batch",
        text="No panic, non-nil AST, err iff an error was reported, every error position inside the file, ResultFromAST never panics.", note="Stack exhaustion is capped with debug.SetMaxStack and would surface as a process-crash violation."),
    "C13": dict(technique="runtime monitoring: differential of every exposed position against a byte-scan reference, exhaustive over short strings of tabs/CR/LF/multi-byte characters",
        text="Token, node, error and FileInfo.SourcePos positions at every character boundary are compared with line = 1+#LF, column = 1+chars with tab stops of 8; Start<=End for every node.", note="Columns compared on valid UTF-8 only."),
    "C14": dict(technique="runtime monitoring: differential against a three-valued reference decoder written from the language spec, exhaustive short escapes and digit strings, observed in default_value / option values",
        text="Only the decided domain of DESIGN.md §4 C14 produces verdicts; other behaviours are recorded.", note="Assumes reference == protoc on the decided domain (protoc unavailable)."),
    "C16": dict(technique="runtime monitoring: Go race detector + joint-vs-split differential with planted collisions and concurrent lookups, perturbation at symbols.go hook points",
        text="Universes of files sharing one linked dependency object are compiled jointly and split over 1-4 sequential or concurrent compilations sharing one Symbols while 4-16 goroutines call Lookup/LookupExtension; collisions must be found iff planted, lookups must be plausible, and no race may be reported in linker code.", note="Collision truth is known by construction."),
    "C17": dict(technique="runtime monitoring: exhaustive import histories with reference views and a replica-table differential",
        text="Every history of <=3 (quick) / <=4 (thorough) imports over a 12-file universe with planted collisions, for linker results and protodesc descriptors: after each failed Import all lookups are unchanged, the import fails again, and a replica built without the failed attempts behaves identically.", note="Known finding F-C17-extension-collision-leaves-symbols (not repaired)."),
    "C25": dict(technique="runtime monitoring: differential fastscan.Scan vs full parser on accepted texts rich in decoys", text="Package, import order, public/weak flags must agree on every text the full parser accepts.", note="Trusts the full parser's answer."),
    "C26": dict(technique="runtime monitoring: exhaustive byte strings over a 12-symbol alphabet + random, three independent read-backs", text="Default().Bytes() in protocompile's descriptor and in protodesc's, and a reference C-unescape of default_value, must return the intended bytes.", note="Trusts the escape speller and reference unescape."),
    "C32": dict(technique="runtime monitoring: exhaustive short texts x every boundary offset x 3 units against a byte-scan reference", text="Round trip InverseLocation(Location(off)) == off and the line rule, exhaustive to length 6/8 over {a,é,€,😀,LF} plus random long texts.", note="Trusts utf8/strings of the standard library."),
    "C33": dict(technique="runtime monitoring: exact sequential cache model + porcupine linearizability of recorded Run/Evict histories under hook perturbation and the race detector",
        text="All labelled DAGs on <=4 nodes and random DAGs to 8 nodes under thousands of Run/Evict histories (concurrent Runs, concurrent Evicts): values, executions-between-evictions, eviction closure, Changed flags and Keys() are checked; the abstract-model half is out of reach.", note="Held on the histories and observed orders counted in the evidence."),
    "C34": dict(technique="runtime monitoring: exhaustive small digraphs x panic sets x concurrent roots, logical quiescence criterion with exact goroutine attribution, semaphore probe, race detector",
        text="All digraphs on <=3 nodes and random ones to 8 nodes with panicking nodes and concurrent Runs: Run returns, cycle errors name closed walks, panics surface as ErrPanic and are not cached, all permits are free afterwards.", note="Trusts the goroutine-dump parser and VerifPermitsFree."),
    "C37": dict(technique="runtime monitoring: round trip ToProto -> Marshal -> AppendFromProto over an exhaustive grid and random reports, compared on accessors, by reflection and by re-encoding", text="Every level, 0-4 snippets, zero-width spans incl. EOF, empty files, multi-file, edits, page breaks.", note="Trusts protobuf-go marshal."),
}

NOT_CLAIMED = {}
