# What each registered check claims (level text, trusted base, deciding technique).
CLAIMS = {
    "C38": dict(
        technique="runtime monitoring: exhaustive inline-domain round trip + reference-map differential + porcupine linearizability of recorded Intern/Query histories under the Go race detector",
        text="Explores the real intern.Table: every inline-encodable string up to the tier bound is interned and mapped back (one-to-one follows from Value(Intern(s))==s on the whole enumerated domain), random multisets are compared with a reference map, and concurrent histories of 2-64 goroutines recorded at the API boundary are checked per string with porcupine while the race detector watches. Held on what was observed; schedules are sampled, not enumerated.",
        note="Trusts the Go race detector, porcupine v1.3.0 and the 10-line sequential model (first Intern fixes the id; Query present iff interned)."),
    "C39": dict(
        technique="runtime monitoring: differential against strconv.ParseFloat (bit-exact) and math/big rationals (exactness flag) on generated numerals",
        text="Runs decimal.Parse+Float64 on generated decimal and hex-float numerals (fast-path region, long mantissas, exact halfway points ±δ, subnormal and overflow edges, 54-bit hex mantissas, an exhaustive m·10^e grid) and compares value bits with strconv and the exact flag with big.Rat.",
        note="Trusts strconv.ParseFloat to be correctly rounded and math/big to be exact; only numerals in the syntax common to both parsers are decided."),
    "C40": dict(
        technique="runtime monitoring: reference-model differential (list of inserted intervals) over exhaustive short and random long insertion histories",
        text="Every insertion history up to the tier bound over the 21 intervals of [0,5] (exhaustive) and random histories up to 40 insertions are replayed on the real Intersect and Nesting; after every insertion entries, every point lookup, the disjointness result and the nesting sets are compared with the naive model.",
        note="Trusts the naive model (a slice of inserted intervals); values are insertion indices so lookups identify the insertions they saw."),
    "C41": dict(
        technique="runtime monitoring: specification oracle (reachability + child-before-parent order; longest-prefix map) over exhaustive small digraphs / key sequences and random large ones",
        text="All digraphs on <=3 nodes with self-loops and on 4 nodes (with self-loops in the thorough tier) x all root lists of length <=2, Sorter reuse after early stop, random graphs to 14 nodes; tries over all insertion sequences of bounded length over a 4-symbol alphabet incl. 0x00/0xff and random sets large enough to force the uint8->uint16->uint32 index growth. Termination is decided by a step budget, not by time.",
        note="Trusts the DFS reference and the map-based trie model. The by-design panic on cyclic input is a recorded known finding (F-C41-toposort-cycle-panic); any other behaviour on cyclic input (hang, duplicate, missing node) is still a violation."),
}

NOT_CLAIMED = {}
