// Package gen is the shared workload/oracle library of the /verif monitors:
// compile helpers, corpus loaders, descriptor comparison, the schema
// generator, the renderer (descriptor -> source) and the reference models.
package gen

import (
	"context"
	"errors"
	"fmt"
	"os"
	"sort"
	"strings"
	"sync"

	"google.golang.org/protobuf/types/descriptorpb"

	"github.com/bufbuild/protocompile"
	"github.com/bufbuild/protocompile/linker"
	"github.com/bufbuild/protocompile/reporter"
)

// VerifDir is the root of the verification tree (corpora live below it).
func VerifDir() string {
	if d := os.Getenv("VERIF_DIR"); d != "" {
		return d
	}
	return "/verif"
}

// Outcome is what one compilation did.
type Outcome struct {
	Files    linker.Files
	Err      error
	Errors   []string // every error handed to the reporter, rendered
	Warnings []string
	ErrObjs  []reporter.ErrorWithPos
	WarnObjs []reporter.ErrorWithPos
	Panic    any
}

// OK reports whether the compilation succeeded.
func (o *Outcome) OK() bool { return o.Err == nil && o.Panic == nil }

// Opts configures Compile.
type Opts struct {
	Par        int
	SourceInfo protocompile.SourceInfoMode
	RetainASTs bool
	Symbols    *linker.Symbols
	NoStdlib   bool
	Ctx        context.Context
}

// Compile compiles names from the in-memory sources with a reporter that
// records everything and never aborts.
func Compile(src map[string]string, names []string, o Opts) *Outcome {
	var res protocompile.Resolver = &protocompile.SourceResolver{Accessor: protocompile.SourceAccessorFromMap(src)}
	if !o.NoStdlib {
		res = protocompile.WithStandardImports(res)
	}
	return CompileWith(res, names, o)
}

// CompileWith is Compile with an arbitrary resolver.
func CompileWith(res protocompile.Resolver, names []string, o Opts) *Outcome {
	out := &Outcome{}
	var mu sync.Mutex
	rep := reporter.NewReporter(
		func(e reporter.ErrorWithPos) error {
			mu.Lock()
			out.Errors = append(out.Errors, e.Error())
			out.ErrObjs = append(out.ErrObjs, e)
			mu.Unlock()
			return nil
		},
		func(e reporter.ErrorWithPos) {
			mu.Lock()
			out.Warnings = append(out.Warnings, e.Error())
			out.WarnObjs = append(out.WarnObjs, e)
			mu.Unlock()
		})
	c := protocompile.Compiler{
		Resolver:       res,
		MaxParallelism: o.Par,
		Reporter:       rep,
		SourceInfoMode: o.SourceInfo,
		RetainASTs:     o.RetainASTs,
		Symbols:        o.Symbols,
	}
	ctx := o.Ctx
	if ctx == nil {
		ctx = context.Background()
	}
	func() {
		defer func() {
			if p := recover(); p != nil {
				out.Panic = p
			}
		}()
		out.Files, out.Err = c.Compile(ctx, names...)
	}()
	var pe protocompile.PanicError
	if out.Err != nil && errors.As(out.Err, &pe) {
		out.Panic = fmt.Sprintf("PanicError: %v\n%s", pe.Value, pe.Stack)
	}
	return out
}

// SortedNames returns the keys of a source map, sorted.
func SortedNames(src map[string]string) []string {
	names := make([]string, 0, len(src))
	for k := range src {
		names = append(names, k)
	}
	sort.Strings(names)
	return names
}

// Protos extracts the descriptor protos of compiled files (by name).
func Protos(files linker.Files) map[string]*descriptorpb.FileDescriptorProto {
	m := map[string]*descriptorpb.FileDescriptorProto{}
	for _, f := range files {
		if r, ok := f.(linker.Result); ok {
			m[f.Path()] = r.FileDescriptorProto()
		}
	}
	return m
}

// AllResults walks compiled files and their imports and returns every
// linker.Result reachable, by path.
func AllResults(files linker.Files) map[string]linker.Result {
	m := map[string]linker.Result{}
	var walk func(f linker.File)
	walk = func(f linker.File) {
		if f == nil {
			return
		}
		if _, ok := m[f.Path()]; ok {
			return
		}
		if r, ok := f.(linker.Result); ok {
			m[f.Path()] = r
		}
		imps := f.Imports()
		for i := 0; i < imps.Len(); i++ {
			if lf, ok := imps.Get(i).FileDescriptor.(linker.File); ok {
				walk(lf)
			}
		}
	}
	for _, f := range files {
		walk(f)
	}
	return m
}

// ErrSummary renders an outcome's errors in a stable way.
func (o *Outcome) ErrSummary() string {
	if o.Panic != nil {
		return fmt.Sprintf("panic: %v", o.Panic)
	}
	e := append([]string(nil), o.Errors...)
	sort.Strings(e)
	s := strings.Join(e, " && ")
	if s == "" && o.Err != nil {
		s = o.Err.Error()
	}
	return s
}
