package gen

import (
	"fmt"
	"math"
	"sort"
	"strconv"
	"strings"
	"unicode/utf8"

	"google.golang.org/protobuf/proto"
	"google.golang.org/protobuf/reflect/protoreflect"
	"google.golang.org/protobuf/types/descriptorpb"

	"github.com/bufbuild/protocompile/internal/verifmon/vlib"
)

// Style controls the free choices the renderer makes. The zero Style (nil
// Rng) is the canonical rendering.
type Style struct {
	Rng *vlib.RNG
	// Ref spells a reference to the element `target` (fully qualified, no
	// leading dot) that occurs in `scope` (fully-qualified name of the
	// enclosing message, or the package for file-level references). kind is
	// "type", "extendee", "method", "optname" or "literal-ext". nil = ".target".
	Ref func(scope, target, kind string) string
}

func (s *Style) chance(p float64) bool { return s != nil && s.Rng != nil && s.Rng.Chance(p) }
func (s *Style) intn(n int) int {
	if s == nil || s.Rng == nil {
		return 0
	}
	return s.Rng.Intn(n)
}

type printer struct {
	sb     strings.Builder
	ind    int
	st     *Style
	fd     *descriptorpb.FileDescriptorProto
	syntax string // proto2, proto3, editions
	res    TypeResolver
	err    error
}

func (p *printer) line(format string, args ...any) {
	p.sb.WriteString(strings.Repeat("  ", p.ind))
	fmt.Fprintf(&p.sb, format, args...)
	p.sb.WriteByte('\n')
}

func (p *printer) fail(format string, args ...any) {
	if p.err == nil {
		p.err = fmt.Errorf(format, args...)
	}
}

// Render prints fd as protobuf source. res must resolve every extension used
// in option values of fd (nil only if fd carries no custom options).
func Render(fd *descriptorpb.FileDescriptorProto, res TypeResolver, st *Style) (string, error) {
	n := fd
	if res != nil {
		var err error
		n, err = Normalize(fd, res)
		if err != nil {
			return "", err
		}
	}
	p := &printer{st: st, fd: n, res: res}
	switch {
	case n.GetSyntax() == "editions":
		p.syntax = "editions"
	case n.GetSyntax() == "proto3":
		p.syntax = "proto3"
	default:
		p.syntax = "proto2"
	}
	p.file()
	return p.sb.String(), p.err
}

func (p *printer) ref(scope, target, kind string) string {
	t := strings.TrimPrefix(target, ".")
	if p.st != nil && p.st.Ref != nil {
		return p.st.Ref(scope, t, kind)
	}
	return "." + t
}

func (p *printer) file() {
	fd := p.fd
	switch p.syntax {
	case "editions":
		ed := strings.TrimPrefix(fd.GetEdition().String(), "EDITION_")
		p.line("edition = %s;", quote(ed, p.st))
	case "proto3":
		p.line("syntax = %s;", quote("proto3", p.st))
	default:
		if !p.st.chance(0.1) {
			p.line("syntax = %s;", quote("proto2", p.st))
		}
	}
	if fd.Package != nil {
		p.line("package %s;", fd.GetPackage())
	}
	pub := map[int32]bool{}
	for _, i := range fd.PublicDependency {
		pub[i] = true
	}
	weak := map[int32]bool{}
	for _, i := range fd.WeakDependency {
		weak[i] = true
	}
	for i, d := range fd.Dependency {
		mod := ""
		if pub[int32(i)] {
			mod = "public "
		} else if weak[int32(i)] {
			mod = "weak "
		}
		p.line("import %s%s;", mod, quote(d, p.st))
	}
	p.optionStatements(fd.GetPackage(), fd.Options)

	// top-level declarations
	extBlocks := p.extBlocks(fd.Extension, fd.GetPackage(), fd.MessageType, nil)
	owned := p.ownedByExt(fd.GetPackage(), extBlocks, fd.MessageType)
	type item = func()
	var seq []item
	bi := 0
	emitBlock := func(j int) {
		b := extBlocks[j]
		seq = append(seq, func() { p.extendBlock(fd.GetPackage(), b, fd.MessageType) })
	}
	for i, m := range fd.MessageType {
		if j, ok := owned[i]; ok {
			for bi <= j {
				emitBlock(bi)
				bi++
			}
			continue
		}
		for bi < len(extBlocks) && !blockOwns(owned, bi) && p.st.chance(0.3) {
			emitBlock(bi)
			bi++
		}
		m := m
		seq = append(seq, func() { p.message(fd.GetPackage(), m) })
	}
	for bi < len(extBlocks) {
		emitBlock(bi)
		bi++
	}
	var enums, svcs []item
	for _, e := range fd.EnumType {
		e := e
		enums = append(enums, func() { p.enum(fd.GetPackage(), e) })
	}
	for _, s := range fd.Service {
		s := s
		svcs = append(svcs, func() { p.service(fd.GetPackage(), s) })
	}
	seq = p.interleave(seq, enums)
	seq = p.interleave(seq, svcs)
	for _, it := range seq {
		it()
	}
}

func blockOwns(owned map[int]int, j int) bool {
	for _, b := range owned {
		if b == j {
			return true
		}
	}
	return false
}

// interleave merges b into a keeping both relative orders (b appended when
// the style is canonical).
func (p *printer) interleave(a, b []func()) []func() {
	if p.st == nil || p.st.Rng == nil {
		return append(a, b...)
	}
	out := make([]func(), 0, len(a)+len(b))
	i, j := 0, 0
	for i < len(a) || j < len(b) {
		if j >= len(b) || (i < len(a) && p.st.Rng.Intn(len(a)-i+len(b)-j) < len(a)-i) {
			out = append(out, a[i])
			i++
		} else {
			out = append(out, b[j])
			j++
		}
	}
	return out
}

type extBlock struct {
	extendee string
	fields   []*descriptorpb.FieldDescriptorProto
}

// extBlocks groups extension fields into extend blocks. A block is split
// where a message that no field declares (a plain message) lies between two
// group messages the block would declare, because the order of the message
// list has to be reproduced.
func (p *printer) extBlocks(exts []*descriptorpb.FieldDescriptorProto, scope string, msgs []*descriptorpb.DescriptorProto, ownedElsewhere map[int]bool) []extBlock {
	ownedIdx := func(x *descriptorpb.FieldDescriptorProto) int {
		if !p.isGroupSyntax(x) {
			return -1
		}
		return findMsg(scope, x.GetTypeName(), msgs)
	}
	owned := map[int]bool{}
	for k := range ownedElsewhere {
		owned[k] = true
	}
	for _, x := range exts {
		if k := ownedIdx(x); k >= 0 {
			owned[k] = true
		}
	}
	var out []extBlock
	last := -1
	for _, x := range exts {
		k := ownedIdx(x)
		split := false
		if k >= 0 && last >= 0 {
			for m := last + 1; m < k; m++ {
				if !owned[m] {
					split = true
				}
			}
		}
		if n := len(out); n > 0 && !split && out[n-1].extendee == x.GetExtendee() && !p.st.chance(0.25) {
			out[n-1].fields = append(out[n-1].fields, x)
		} else {
			out = append(out, extBlock{extendee: x.GetExtendee(), fields: []*descriptorpb.FieldDescriptorProto{x}})
			last = -1
		}
		if k >= 0 {
			last = k
		}
	}
	return out
}

// isGroupSyntax reports whether f is written with the proto2 group syntax.
func (p *printer) isGroupSyntax(f *descriptorpb.FieldDescriptorProto) bool {
	return p.syntax == "proto2" && f.GetType() == descriptorpb.FieldDescriptorProto_TYPE_GROUP
}

// ownedByExt maps message index -> extension block index for group messages
// declared by extension fields.
func (p *printer) ownedByExt(scope string, blocks []extBlock, msgs []*descriptorpb.DescriptorProto) map[int]int {
	owned := map[int]int{}
	for j, b := range blocks {
		for _, f := range b.fields {
			if !p.isGroupSyntax(f) {
				continue
			}
			if k := findMsg(scope, f.GetTypeName(), msgs); k >= 0 {
				owned[k] = j
			} else {
				p.fail("group extension %s: message %s not found in scope %q", f.GetName(), f.GetTypeName(), scope)
			}
		}
	}
	return owned
}

func findMsg(scope, typeName string, msgs []*descriptorpb.DescriptorProto) int {
	for i, m := range msgs {
		fq := "." + m.GetName()
		if scope != "" {
			fq = "." + scope + "." + m.GetName()
		}
		if fq == typeName {
			return i
		}
	}
	return -1
}

func (p *printer) extendBlock(scope string, b extBlock, msgs []*descriptorpb.DescriptorProto) {
	p.line("extend %s {", p.ref(scope, b.extendee, "extendee"))
	p.ind++
	for _, f := range b.fields {
		p.field(scope, f, msgs, nil)
	}
	p.ind--
	p.line("}")
}

func jsonName(name string) string {
	var sb strings.Builder
	up := false
	for _, c := range name {
		if c == '_' {
			up = true
			continue
		}
		if up && c >= 'a' && c <= 'z' {
			c -= 'a' - 'A'
		}
		up = false
		sb.WriteRune(c)
	}
	return sb.String()
}

var scalarNames = map[descriptorpb.FieldDescriptorProto_Type]string{
	descriptorpb.FieldDescriptorProto_TYPE_DOUBLE:   "double",
	descriptorpb.FieldDescriptorProto_TYPE_FLOAT:    "float",
	descriptorpb.FieldDescriptorProto_TYPE_INT64:    "int64",
	descriptorpb.FieldDescriptorProto_TYPE_UINT64:   "uint64",
	descriptorpb.FieldDescriptorProto_TYPE_INT32:    "int32",
	descriptorpb.FieldDescriptorProto_TYPE_FIXED64:  "fixed64",
	descriptorpb.FieldDescriptorProto_TYPE_FIXED32:  "fixed32",
	descriptorpb.FieldDescriptorProto_TYPE_BOOL:     "bool",
	descriptorpb.FieldDescriptorProto_TYPE_STRING:   "string",
	descriptorpb.FieldDescriptorProto_TYPE_BYTES:    "bytes",
	descriptorpb.FieldDescriptorProto_TYPE_UINT32:   "uint32",
	descriptorpb.FieldDescriptorProto_TYPE_SFIXED32: "sfixed32",
	descriptorpb.FieldDescriptorProto_TYPE_SFIXED64: "sfixed64",
	descriptorpb.FieldDescriptorProto_TYPE_SINT32:   "sint32",
	descriptorpb.FieldDescriptorProto_TYPE_SINT64:   "sint64",
}

func (p *printer) typeName(scope string, f *descriptorpb.FieldDescriptorProto) string {
	if s, ok := scalarNames[f.GetType()]; ok {
		return s
	}
	return p.ref(scope, f.GetTypeName(), "type")
}

// mapEntryOf returns the nested map-entry message for a map field (nil otherwise).
func mapEntryOf(scope string, f *descriptorpb.FieldDescriptorProto, msgs []*descriptorpb.DescriptorProto) (int, *descriptorpb.DescriptorProto) {
	if f.GetLabel() != descriptorpb.FieldDescriptorProto_LABEL_REPEATED || f.GetType() != descriptorpb.FieldDescriptorProto_TYPE_MESSAGE {
		return -1, nil
	}
	k := findMsg(scope, f.GetTypeName(), msgs)
	if k < 0 || !msgs[k].GetOptions().GetMapEntry() {
		return -1, nil
	}
	return k, msgs[k]
}

// field prints one field (regular, extension, group or map). msgs are the
// sibling messages in which group / map-entry messages live.
func (p *printer) field(scope string, f *descriptorpb.FieldDescriptorProto, msgs []*descriptorpb.DescriptorProto, oneof *string) {
	label := ""
	switch f.GetLabel() {
	case descriptorpb.FieldDescriptorProto_LABEL_REPEATED:
		label = "repeated "
	case descriptorpb.FieldDescriptorProto_LABEL_REQUIRED:
		if p.syntax == "proto2" {
			label = "required "
		}
	default:
		switch {
		case oneof != nil:
		case p.syntax == "proto2":
			label = "optional "
		case p.syntax == "proto3" && f.GetProto3Optional():
			label = "optional "
		}
	}
	opts := p.compactOptions(scope, f)
	if _, entry := mapEntryOf(scope, f, msgs); entry != nil {
		var k, v *descriptorpb.FieldDescriptorProto
		for _, ef := range entry.Field {
			if ef.GetNumber() == 1 {
				k = ef
			} else if ef.GetNumber() == 2 {
				v = ef
			}
		}
		if k == nil || v == nil {
			p.fail("map entry %s malformed", entry.GetName())
			return
		}
		p.line("map<%s, %s> %s = %s%s;", p.typeName(scope, k), p.typeName(scope, v), f.GetName(), p.intLit(int64(f.GetNumber()), false), opts)
		return
	}
	if p.isGroupSyntax(f) {
		k := findMsg(scope, f.GetTypeName(), msgs)
		if k < 0 {
			p.fail("group %s: message %s not found", f.GetName(), f.GetTypeName())
			return
		}
		g := msgs[k]
		p.line("%sgroup %s = %s%s {", label, g.GetName(), p.intLit(int64(f.GetNumber()), false), opts)
		p.ind++
		p.messageBody(joinName(scope, g.GetName()), g)
		p.ind--
		p.line("}")
		return
	}
	p.line("%s%s %s = %s%s;", label, p.typeName(scope, f), f.GetName(), p.intLit(int64(f.GetNumber()), false), opts)
}

func joinName(scope, name string) string {
	if scope == "" {
		return name
	}
	return scope + "." + name
}

func (p *printer) compactOptions(scope string, f *descriptorpb.FieldDescriptorProto) string {
	var parts []string
	if f.DefaultValue != nil {
		parts = append(parts, "default = "+p.defaultLit(f))
	}
	if f.JsonName != nil && f.GetJsonName() != jsonName(f.GetName()) {
		parts = append(parts, "json_name = "+quote(f.GetJsonName(), p.st))
	}
	if f.Options != nil {
		parts = append(parts, p.optionEntries(scope, f.Options.ProtoReflect())...)
	}
	if len(parts) == 0 {
		return ""
	}
	return " [" + strings.Join(parts, ", ") + "]"
}

func (p *printer) defaultLit(f *descriptorpb.FieldDescriptorProto) string {
	dv := f.GetDefaultValue()
	switch f.GetType() {
	case descriptorpb.FieldDescriptorProto_TYPE_STRING:
		return quote(dv, p.st)
	case descriptorpb.FieldDescriptorProto_TYPE_BYTES:
		// default_value of bytes fields is already C-escaped text
		return `"` + dv + `"`
	default:
		return dv
	}
}

// messageBody prints the contents of a message.
func (p *printer) messageBody(fq string, m *descriptorpb.DescriptorProto) {
	p.optionStatements(fq, m.Options)
	fieldOwned := map[int]bool{}
	for _, f := range m.Field {
		if k, e := mapEntryOf(fq, f, m.NestedType); e != nil {
			fieldOwned[k] = true
		} else if p.isGroupSyntax(f) {
			if k := findMsg(fq, f.GetTypeName(), m.NestedType); k >= 0 {
				fieldOwned[k] = true
			}
		}
	}
	extBlocks := p.extBlocks(m.Extension, fq, m.NestedType, fieldOwned)
	ownedExt := p.ownedByExt(fq, extBlocks, m.NestedType)
	// field units: plain fields and oneof blocks
	type unit struct {
		fields []*descriptorpb.FieldDescriptorProto
		oneof  int // -1 for a plain field
	}
	var units []unit
	for _, f := range m.Field {
		if f.OneofIndex != nil && !f.GetProto3Optional() {
			oi := int(f.GetOneofIndex())
			if n := len(units); n > 0 && units[n-1].oneof == oi {
				units[n-1].fields = append(units[n-1].fields, f)
				continue
			}
			units = append(units, unit{fields: []*descriptorpb.FieldDescriptorProto{f}, oneof: oi})
			continue
		}
		units = append(units, unit{fields: []*descriptorpb.FieldDescriptorProto{f}, oneof: -1})
	}
	ownedField := map[int]int{} // nested index -> unit index
	for ui, u := range units {
		for _, f := range u.fields {
			if k, e := mapEntryOf(fq, f, m.NestedType); e != nil {
				ownedField[k] = ui
			} else if p.isGroupSyntax(f) {
				if k := findMsg(fq, f.GetTypeName(), m.NestedType); k >= 0 {
					ownedField[k] = ui
				}
			}
		}
	}
	unitOwns := map[int]bool{}
	for _, ui := range ownedField {
		unitOwns[ui] = true
	}
	var seq []func()
	ui, bi := 0, 0
	var nestedOrder []int // nested-type indices in the order the source will declare them
	emitUnit := func(i int) {
		u := units[i]
		for _, f := range u.fields {
			if k, e := mapEntryOf(fq, f, m.NestedType); e != nil {
				nestedOrder = append(nestedOrder, k)
			} else if p.isGroupSyntax(f) {
				if k := findMsg(fq, f.GetTypeName(), m.NestedType); k >= 0 {
					nestedOrder = append(nestedOrder, k)
				}
			}
		}
		seq = append(seq, func() {
			if u.oneof < 0 {
				p.field(fq, u.fields[0], m.NestedType, nil)
				return
			}
			if u.oneof >= len(m.OneofDecl) {
				p.fail("oneof index out of range in %s", fq)
				return
			}
			od := m.OneofDecl[u.oneof]
			p.line("oneof %s {", od.GetName())
			p.ind++
			p.optionStatements(fq, od.Options)
			name := od.GetName()
			for _, f := range u.fields {
				p.field(fq, f, m.NestedType, &name)
			}
			p.ind--
			p.line("}")
		})
	}
	emitBlock := func(j int) {
		b := extBlocks[j]
		for _, f := range b.fields {
			if p.isGroupSyntax(f) {
				if k := findMsg(fq, f.GetTypeName(), m.NestedType); k >= 0 {
					nestedOrder = append(nestedOrder, k)
				}
			}
		}
		seq = append(seq, func() { p.extendBlock(fq, b, m.NestedType) })
	}
	defer func() {
		for i := 1; i < len(nestedOrder); i++ {
			if nestedOrder[i] <= nestedOrder[i-1] {
				p.fail("message %s cannot be rendered: the order of nested_type cannot be reproduced (%v)", fq, nestedOrder)
			}
		}
	}()
	for k, nm := range m.NestedType {
		if u, ok := ownedField[k]; ok {
			for ui <= u {
				emitUnit(ui)
				ui++
			}
			continue
		}
		if j, ok := ownedExt[k]; ok {
			for bi <= j {
				emitBlock(bi)
				bi++
			}
			continue
		}
		for ui < len(units) && !unitOwns[ui] && p.st.chance(0.4) {
			emitUnit(ui)
			ui++
		}
		for bi < len(extBlocks) && !blockOwns(ownedExt, bi) && p.st.chance(0.3) {
			emitBlock(bi)
			bi++
		}
		nm := nm
		nestedOrder = append(nestedOrder, k)
		seq = append(seq, func() { p.message(fq, nm) })
	}
	// remaining units and blocks, interleaved
	var restU, restB []func()
	for ; ui < len(units); ui++ {
		n := len(seq)
		emitUnit(ui)
		restU = append(restU, seq[n])
		seq = seq[:n]
	}
	for ; bi < len(extBlocks); bi++ {
		n := len(seq)
		emitBlock(bi)
		restB = append(restB, seq[n])
		seq = seq[:n]
	}
	seq = append(seq, p.interleave(restU, restB)...)
	var misc []func()
	for _, e := range m.EnumType {
		e := e
		misc = append(misc, func() { p.enum(fq, e) })
	}
	seq = p.interleave(seq, misc)
	misc = nil
	for _, er := range m.ExtensionRange {
		er := er
		misc = append(misc, func() {
			o := ""
			if er.Options != nil {
				if parts := p.optionEntries(fq, er.Options.ProtoReflect()); len(parts) > 0 {
					o = " [" + strings.Join(parts, ", ") + "]"
				}
			}
			p.line("extensions %s%s;", p.rangeLit(er.GetStart(), er.GetEnd()-1), o)
		})
	}
	for _, rr := range m.ReservedRange {
		rr := rr
		misc = append(misc, func() { p.line("reserved %s;", p.rangeLit(rr.GetStart(), rr.GetEnd()-1)) })
	}
	for _, rn := range m.ReservedName {
		rn := rn
		misc = append(misc, func() { p.line("reserved %s;", p.reservedName(rn)) })
	}
	seq = p.interleave(seq, misc)
	for _, it := range seq {
		it()
	}
}

func (p *printer) reservedName(n string) string {
	if p.syntax == "editions" {
		return n
	}
	return quote(n, p.st)
}

func (p *printer) rangeLit(start, endIncl int32) string {
	if start == endIncl {
		return p.intLit(int64(start), false)
	}
	return p.intLit(int64(start), false) + " to " + p.intLit(int64(endIncl), false)
}

func (p *printer) message(scope string, m *descriptorpb.DescriptorProto) {
	p.line("message %s {", m.GetName())
	p.ind++
	p.messageBody(joinName(scope, m.GetName()), m)
	p.ind--
	p.line("}")
}

func (p *printer) enum(scope string, e *descriptorpb.EnumDescriptorProto) {
	p.line("enum %s {", e.GetName())
	p.ind++
	fq := joinName(scope, e.GetName())
	p.optionStatements(fq, e.Options)
	for _, v := range e.Value {
		o := ""
		if v.Options != nil {
			if parts := p.optionEntries(fq, v.Options.ProtoReflect()); len(parts) > 0 {
				o = " [" + strings.Join(parts, ", ") + "]"
			}
		}
		p.line("%s = %s%s;", v.GetName(), p.intLit(int64(v.GetNumber()), true), o)
	}
	for _, rr := range e.ReservedRange {
		p.line("reserved %s;", p.enumRangeLit(rr.GetStart(), rr.GetEnd()))
	}
	for _, rn := range e.ReservedName {
		p.line("reserved %s;", p.reservedName(rn))
	}
	p.ind--
	p.line("}")
}

func (p *printer) enumRangeLit(start, end int32) string {
	if start == end {
		return p.intLit(int64(start), true)
	}
	return p.intLit(int64(start), true) + " to " + p.intLit(int64(end), true)
}

func (p *printer) service(scope string, s *descriptorpb.ServiceDescriptorProto) {
	p.line("service %s {", s.GetName())
	p.ind++
	fq := joinName(scope, s.GetName())
	p.optionStatements(fq, s.Options)
	for _, m := range s.Method {
		in, out := p.ref(fq, m.GetInputType(), "method"), p.ref(fq, m.GetOutputType(), "method")
		if m.GetClientStreaming() {
			in = "stream " + in
		}
		if m.GetServerStreaming() {
			out = "stream " + out
		}
		var stmts []string
		if m.Options != nil {
			stmts = p.optionEntries(joinName(fq, m.GetName()), m.Options.ProtoReflect())
		}
		if m.Options == nil {
			p.line("rpc %s(%s) returns (%s);", m.GetName(), in, out)
			continue
		}
		p.line("rpc %s(%s) returns (%s) {", m.GetName(), in, out)
		p.ind++
		for _, st := range stmts {
			p.line("option %s;", st)
		}
		p.ind--
		p.line("}")
	}
	p.ind--
	p.line("}")
}

func (p *printer) optionStatements(scope string, opts proto.Message) {
	if opts == nil || !opts.ProtoReflect().IsValid() {
		return
	}
	for _, e := range p.optionEntries(scope, opts.ProtoReflect()) {
		p.line("option %s;", e)
	}
}

// optionEntries renders every set field of an options message as
// "name = value" entries.
func (p *printer) optionEntries(scope string, m protoreflect.Message) []string {
	if len(m.GetUnknown()) > 0 {
		p.fail("options message %s has unknown fields (unresolved extension?) in scope %q", m.Descriptor().FullName(), scope)
	}
	type fv struct {
		fd protoreflect.FieldDescriptor
		v  protoreflect.Value
	}
	var fields []fv
	m.Range(func(fd protoreflect.FieldDescriptor, v protoreflect.Value) bool {
		fields = append(fields, fv{fd, v})
		return true
	})
	sort.Slice(fields, func(i, j int) bool {
		if fields[i].fd.IsExtension() != fields[j].fd.IsExtension() {
			return !fields[i].fd.IsExtension()
		}
		if fields[i].fd.Number() != fields[j].fd.Number() {
			return fields[i].fd.Number() < fields[j].fd.Number()
		}
		return fields[i].fd.FullName() < fields[j].fd.FullName()
	})
	var out []string
	for _, f := range fields {
		fd := f.fd
		switch fd.Name() {
		case "uninterpreted_option":
			if !fd.IsExtension() {
				p.fail("uninterpreted_option present in scope %q", scope)
				continue
			}
		case "map_entry":
			if !fd.IsExtension() && m.Descriptor().FullName() == "google.protobuf.MessageOptions" {
				continue
			}
		}
		name := string(fd.Name())
		if fd.IsExtension() {
			name = "(" + p.ref(scope, string(fd.FullName()), "optname") + ")"
		}
		out = append(out, p.optionField(scope, name, fd, f.v)...)
	}
	return out
}

// optionField renders one option field as one or more "path = value" entries.
func (p *printer) optionField(scope, name string, fd protoreflect.FieldDescriptor, v protoreflect.Value) []string {
	switch {
	case fd.IsList():
		var out []string
		l := v.List()
		for i := 0; i < l.Len(); i++ {
			out = append(out, name+" = "+p.value(scope, fd, l.Get(i), 0))
		}
		return out
	case fd.IsMap():
		var out []string
		mp := v.Map()
		var keys []protoreflect.MapKey
		mp.Range(func(k protoreflect.MapKey, _ protoreflect.Value) bool { keys = append(keys, k); return true })
		sort.Slice(keys, func(i, j int) bool { return keys[i].String() < keys[j].String() })
		for _, k := range keys {
			out = append(out, fmt.Sprintf("%s = { key: %s value: %s }", name, p.value(scope, fd.MapKey(), k.Value(), 1), p.value(scope, fd.MapValue(), mp.Get(k), 1)))
		}
		return out
	case fd.Message() != nil && (fd.Message().FullName() == "google.protobuf.FeatureSet" || p.st.chance(0.35)) && fd.Message().FullName() != "google.protobuf.Any":
		// per-leaf paths: name.sub = value
		var out []string
		sub := v.Message()
		inner := p.optionEntriesPaths(scope, sub)
		if len(inner) == 0 {
			return []string{name + " = {}"}
		}
		for _, e := range inner {
			out = append(out, name+"."+e)
		}
		return out
	}
	return []string{name + " = " + p.value(scope, fd, v, 0)}
}

// optionEntriesPaths is optionEntries for a nested message reached through a
// path (extension names are written in parentheses).
func (p *printer) optionEntriesPaths(scope string, m protoreflect.Message) []string {
	if len(m.GetUnknown()) > 0 {
		p.fail("option value message %s has unknown fields in scope %q", m.Descriptor().FullName(), scope)
	}
	var out []string
	var fds []protoreflect.FieldDescriptor
	vals := map[protoreflect.FullName]protoreflect.Value{}
	m.Range(func(fd protoreflect.FieldDescriptor, v protoreflect.Value) bool {
		fds = append(fds, fd)
		vals[fd.FullName()] = v
		return true
	})
	sort.Slice(fds, func(i, j int) bool { return fds[i].Number() < fds[j].Number() })
	for _, fd := range fds {
		name := string(fd.Name())
		if fd.IsExtension() {
			name = "(" + p.ref(scope, string(fd.FullName()), "optname") + ")"
		} else if fd.Kind() == protoreflect.GroupKind && isGroupLike(fd) {
			name = strings.ToLower(string(fd.Message().Name()))
		}
		out = append(out, p.optionField(scope, name, fd, vals[fd.FullName()])...)
	}
	return out
}

func isGroupLike(fd protoreflect.FieldDescriptor) bool {
	return fd.Kind() == protoreflect.GroupKind && strings.ToLower(string(fd.Message().Name())) == string(fd.Name())
}

// value renders one (non-repeated) value. depth>0 means inside a message literal.
func (p *printer) value(scope string, fd protoreflect.FieldDescriptor, v protoreflect.Value, depth int) string {
	switch fd.Kind() {
	case protoreflect.BoolKind:
		if v.Bool() {
			return "true"
		}
		return "false"
	case protoreflect.EnumKind:
		ev := fd.Enum().Values().ByNumber(v.Enum())
		if ev == nil {
			if depth > 0 {
				return strconv.Itoa(int(v.Enum()))
			}
			p.fail("enum option value %d of %s has no name", v.Enum(), fd.FullName())
			return "0"
		}
		return string(ev.Name())
	case protoreflect.Int32Kind, protoreflect.Sint32Kind, protoreflect.Sfixed32Kind, protoreflect.Int64Kind, protoreflect.Sint64Kind, protoreflect.Sfixed64Kind:
		return p.intLit(v.Int(), true)
	case protoreflect.Uint32Kind, protoreflect.Fixed32Kind, protoreflect.Uint64Kind, protoreflect.Fixed64Kind:
		return p.uintLit(v.Uint())
	case protoreflect.FloatKind:
		return floatLit(v.Float(), 32)
	case protoreflect.DoubleKind:
		return floatLit(v.Float(), 64)
	case protoreflect.StringKind:
		return quote(v.String(), p.st)
	case protoreflect.BytesKind:
		return quote(string(v.Bytes()), p.st)
	case protoreflect.MessageKind, protoreflect.GroupKind:
		return p.msgLit(scope, v.Message(), depth)
	}
	p.fail("unsupported kind %v", fd.Kind())
	return ""
}

func (p *printer) msgLit(scope string, m protoreflect.Message, depth int) string {
	if len(m.GetUnknown()) > 0 {
		p.fail("message literal %s has unknown fields in scope %q", m.Descriptor().FullName(), scope)
	}
	open, close := "{", "}"
	if depth > 0 && p.st.chance(0.2) {
		open, close = "<", ">"
	}
	var parts []string
	if m.Descriptor().FullName() == "google.protobuf.Any" && p.res != nil {
		url := m.Get(m.Descriptor().Fields().ByName("type_url")).String()
		val := m.Get(m.Descriptor().Fields().ByName("value")).Bytes()
		if i := strings.LastIndex(url, "/"); i >= 0 && url != "" {
			if mt, err := p.res.FindMessageByName(protoreflect.FullName(url[i+1:])); err == nil {
				inner := mt.New()
				if err := (proto.UnmarshalOptions{Resolver: p.res}).Unmarshal(val, inner.Interface()); err == nil && len(inner.GetUnknown()) == 0 {
					return open + " [" + url + "] " + p.msgLit(scope, inner, depth+1) + " " + close
				}
			}
		}
	}
	var fds []protoreflect.FieldDescriptor
	vals := map[protoreflect.FullName]protoreflect.Value{}
	m.Range(func(fd protoreflect.FieldDescriptor, v protoreflect.Value) bool {
		fds = append(fds, fd)
		vals[fd.FullName()] = v
		return true
	})
	sort.Slice(fds, func(i, j int) bool {
		if fds[i].Number() != fds[j].Number() {
			return fds[i].Number() < fds[j].Number()
		}
		return fds[i].FullName() < fds[j].FullName()
	})
	sep := " "
	switch p.st.intn(4) {
	case 1:
		sep = ", "
	case 2:
		sep = "; "
	}
	for _, fd := range fds {
		name := string(fd.Name())
		if fd.IsExtension() {
			name = "[" + strings.TrimPrefix(p.ref(scope, string(fd.FullName()), "literal-ext"), ".") + "]"
		} else if isGroupLike(fd) {
			name = string(fd.Message().Name())
		}
		v := vals[fd.FullName()]
		one := func(fd protoreflect.FieldDescriptor, v protoreflect.Value) string {
			if fd.Message() != nil {
				if p.st.chance(0.5) {
					return name + " " + p.value(scope, fd, v, depth+1)
				}
				return name + ": " + p.value(scope, fd, v, depth+1)
			}
			return name + ": " + p.value(scope, fd, v, depth+1)
		}
		switch {
		case fd.IsList():
			l := v.List()
			if l.Len() > 1 && p.st.chance(0.35) {
				// mixed: the same repeated field named several times, some occurrences single values, some lists
				for i := 0; i < l.Len(); {
					k := 1 + p.st.intn(l.Len()-i)
					if k == 1 && p.st.chance(0.6) {
						parts = append(parts, one(fd, l.Get(i)))
					} else {
						var es []string
						for j := i; j < i+k; j++ {
							es = append(es, p.value(scope, fd, l.Get(j), depth+1))
						}
						parts = append(parts, name+": ["+strings.Join(es, ", ")+"]")
					}
					i += k
				}
			} else if l.Len() > 0 && p.st.chance(0.5) {
				var es []string
				for i := 0; i < l.Len(); i++ {
					es = append(es, p.value(scope, fd, l.Get(i), depth+1))
				}
				parts = append(parts, name+": ["+strings.Join(es, ", ")+"]")
			} else {
				for i := 0; i < l.Len(); i++ {
					parts = append(parts, one(fd, l.Get(i)))
				}
			}
		case fd.IsMap():
			mp := v.Map()
			var keys []protoreflect.MapKey
			mp.Range(func(k protoreflect.MapKey, _ protoreflect.Value) bool { keys = append(keys, k); return true })
			sort.Slice(keys, func(i, j int) bool { return keys[i].String() < keys[j].String() })
			for _, k := range keys {
				parts = append(parts, fmt.Sprintf("%s { key: %s value: %s }", name, p.value(scope, fd.MapKey(), k.Value(), depth+1), p.value(scope, fd.MapValue(), mp.Get(k), depth+1)))
			}
		default:
			parts = append(parts, one(fd, v))
		}
	}
	// an empty list literal for a repeated field the value does not set changes nothing
	if p.st != nil && p.st.Rng != nil {
		mfs := m.Descriptor().Fields()
		for i := 0; i < mfs.Len(); i++ {
			fd := mfs.Get(i)
			if fd.IsList() && !m.Has(fd) && !isGroupLike(fd) && p.st.chance(0.12) {
				e := string(fd.Name()) + ": []"
				if p.st.chance(0.5) {
					parts = append([]string{e}, parts...)
				} else {
					parts = append(parts, e)
				}
			}
		}
	}
	if len(parts) == 0 {
		return open + close
	}
	return open + " " + strings.Join(parts, sep) + " " + close
}

func (p *printer) intLit(v int64, allowNeg bool) string {
	if v < 0 {
		if v == math.MinInt64 {
			return "-9223372036854775808"
		}
		return "-" + p.uintLit(uint64(-v))
	}
	return p.uintLit(uint64(v))
}

func (p *printer) uintLit(v uint64) string {
	switch p.st.intn(8) {
	case 1:
		return "0x" + strconv.FormatUint(v, 16)
	case 2:
		return "0X" + strings.ToUpper(strconv.FormatUint(v, 16))
	case 3:
		if v == 0 {
			return "0"
		}
		return "0" + strconv.FormatUint(v, 8)
	}
	return strconv.FormatUint(v, 10)
}

func floatLit(v float64, bits int) string {
	switch {
	case math.IsInf(v, 1):
		return "inf"
	case math.IsInf(v, -1):
		return "-inf"
	case math.IsNaN(v):
		return "nan"
	}
	s := strconv.FormatFloat(v, 'g', -1, bits)
	return s
}

// quote renders a string literal whose decoded value is s. With a random
// style, escape spellings and quote characters vary.
func quote(s string, st *Style) string {
	q := byte('"')
	if st.chance(0.3) {
		q = '\''
	}
	var sb strings.Builder
	sb.WriteByte(q)
	b := []byte(s)
	for i := 0; i < len(b); i++ {
		c := b[i]
		switch {
		case c == q || c == '\\':
			sb.WriteByte('\\')
			sb.WriteByte(c)
		case c == '\n':
			sb.WriteString(`\n`)
		case c == '\r':
			sb.WriteString(`\r`)
		case c == '\t':
			sb.WriteString(`\t`)
		case c < 0x20 || c == 0x7f:
			writeOctalOrHex(&sb, c, b, i, st)
		case c >= 0x80:
			// keep valid UTF-8 sequences raw (sometimes), escape other bytes
			r, n := utf8.DecodeRune(b[i:])
			if r != utf8.RuneError && n > 1 && !st.chance(0.3) {
				sb.Write(b[i : i+n])
				i += n - 1
			} else {
				writeOctalOrHex(&sb, c, b, i, st)
			}
		default:
			if st.chance(0.03) {
				writeOctalOrHex(&sb, c, b, i, st)
			} else {
				sb.WriteByte(c)
			}
		}
	}
	sb.WriteByte(q)
	return sb.String()
}

func isHexDigit(c byte) bool {
	return c >= '0' && c <= '9' || c >= 'a' && c <= 'f' || c >= 'A' && c <= 'F'
}

func writeOctalOrHex(sb *strings.Builder, c byte, b []byte, i int, st *Style) {
	nextHex := i+1 < len(b) && isHexDigit(b[i+1])
	nextOct := i+1 < len(b) && b[i+1] >= '0' && b[i+1] <= '7'
	switch st.intn(4) {
	case 1:
		if !nextHex {
			fmt.Fprintf(sb, `\x%x`, c)
			return
		}
		fmt.Fprintf(sb, `\x%02x`, c)
		// two hex digits are the maximum, so a following hex digit is not consumed
		return
	case 2:
		if !nextOct {
			fmt.Fprintf(sb, `\%o`, c)
			return
		}
	}
	fmt.Fprintf(sb, `\%03o`, c)
}
