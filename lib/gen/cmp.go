package gen

import (
	"bytes"
	"fmt"
	"math"
	"sort"
	"strings"

	"google.golang.org/protobuf/proto"
	"google.golang.org/protobuf/reflect/protodesc"
	"google.golang.org/protobuf/reflect/protoreflect"
	"google.golang.org/protobuf/reflect/protoregistry"
	"google.golang.org/protobuf/types/descriptorpb"
	"google.golang.org/protobuf/types/dynamicpb"
)

// TypeResolver resolves message and extension types (for decoding options).
type TypeResolver interface {
	protoregistry.MessageTypeResolver
	protoregistry.ExtensionTypeResolver
}

// BuildFiles turns descriptor protos into runtime descriptors with the Go
// protobuf runtime (protodesc); missing dependencies are taken from the
// global registry (well-known types, descriptor.proto).
func BuildFiles(fds []*descriptorpb.FileDescriptorProto) (*protoregistry.Files, error) {
	reg, errs := BuildFilesLenient(fds)
	for _, e := range errs {
		return nil, e
	}
	return reg, nil
}

// BuildFilesLenient is BuildFiles that skips files the runtime refuses (and
// their dependents) and reports them by name.
func BuildFilesLenient(fds []*descriptorpb.FileDescriptorProto) (*protoregistry.Files, map[string]error) {
	errs := map[string]error{}
	reg, _ := buildFiles(fds, errs)
	return reg, errs
}

func buildFiles(fds []*descriptorpb.FileDescriptorProto, errs map[string]error) (*protoregistry.Files, error) {
	byName := map[string]*descriptorpb.FileDescriptorProto{}
	for _, fd := range fds {
		byName[fd.GetName()] = fd
	}
	reg := &protoregistry.Files{}
	state := map[string]int{}
	var build func(name string) error
	build = func(name string) error {
		switch state[name] {
		case 2:
			return nil
		case 1:
			return fmt.Errorf("import cycle at %s", name)
		case 3:
			return fmt.Errorf("dependency %s could not be built", name)
		}
		fd, ok := byName[name]
		if !ok {
			gf, err := protoregistry.GlobalFiles.FindFileByPath(name)
			if err != nil {
				return fmt.Errorf("dependency %s not available: %w", name, err)
			}
			state[name] = 1
			imps := gf.Imports()
			for i := 0; i < imps.Len(); i++ {
				if err := build(imps.Get(i).Path()); err != nil {
					return err
				}
			}
			state[name] = 2
			if _, err := reg.FindFileByPath(name); err != nil {
				return reg.RegisterFile(gf)
			}
			return nil
		}
		state[name] = 1
		for _, d := range fd.Dependency {
			if err := build(d); err != nil {
				state[name] = 3
				return err
			}
		}
		f, err := protodesc.NewFile(fd, reg)
		if err != nil {
			state[name] = 3
			return fmt.Errorf("%s: %w", name, err)
		}
		state[name] = 2
		return reg.RegisterFile(f)
	}
	names := make([]string, 0, len(byName))
	for n := range byName {
		names = append(names, n)
	}
	sort.Strings(names)
	for _, n := range names {
		if err := build(n); err != nil {
			errs[n] = err
		}
	}
	return reg, nil
}

// TypesOf registers dynamic types for everything in the files.
func TypesOf(files *protoregistry.Files) *protoregistry.Types {
	types := &protoregistry.Types{}
	var msgs func(mds protoreflect.MessageDescriptors)
	exts := func(xds protoreflect.ExtensionDescriptors) {
		for i := 0; i < xds.Len(); i++ {
			_ = types.RegisterExtension(dynamicpb.NewExtensionType(xds.Get(i)))
		}
	}
	msgs = func(mds protoreflect.MessageDescriptors) {
		for i := 0; i < mds.Len(); i++ {
			md := mds.Get(i)
			_ = types.RegisterMessage(dynamicpb.NewMessageType(md))
			eds := md.Enums()
			for j := 0; j < eds.Len(); j++ {
				_ = types.RegisterEnum(dynamicpb.NewEnumType(eds.Get(j)))
			}
			exts(md.Extensions())
			msgs(md.Messages())
		}
	}
	files.RangeFiles(func(fd protoreflect.FileDescriptor) bool {
		msgs(fd.Messages())
		eds := fd.Enums()
		for j := 0; j < eds.Len(); j++ {
			_ = types.RegisterEnum(dynamicpb.NewEnumType(eds.Get(j)))
		}
		exts(fd.Extensions())
		return true
	})
	return types
}

// Normalize returns a copy of fd with source info removed and every options
// message re-decoded against res, so that extension option values are known
// fields on both sides of a comparison.
func Normalize(fd *descriptorpb.FileDescriptorProto, res TypeResolver) (*descriptorpb.FileDescriptorProto, error) {
	c := proto.Clone(fd).(*descriptorpb.FileDescriptorProto)
	c.SourceCodeInfo = nil
	b, err := proto.MarshalOptions{Deterministic: true}.Marshal(c)
	if err != nil {
		return nil, err
	}
	out := &descriptorpb.FileDescriptorProto{}
	if err := (proto.UnmarshalOptions{Resolver: res}).Unmarshal(b, out); err != nil {
		return nil, err
	}
	return out, nil
}

// Diff returns "" if the two messages are equal, else a description of the
// first difference found (path and both values). NaNs are equal to NaNs.
func Diff(a, b proto.Message) string {
	return diffMsg("", a.ProtoReflect(), b.ProtoReflect())
}

func diffMsg(path string, a, b protoreflect.Message) string {
	if a.Descriptor().FullName() != b.Descriptor().FullName() {
		return fmt.Sprintf("%s: message types %s != %s", path, a.Descriptor().FullName(), b.Descriptor().FullName())
	}
	type fv struct {
		fd protoreflect.FieldDescriptor
		v  protoreflect.Value
	}
	collect := func(m protoreflect.Message) map[string]fv {
		out := map[string]fv{}
		m.Range(func(fd protoreflect.FieldDescriptor, v protoreflect.Value) bool {
			k := string(fd.Name())
			if fd.IsExtension() {
				k = "(" + string(fd.FullName()) + ")"
			}
			out[k] = fv{fd, v}
			return true
		})
		return out
	}
	fa, fb := collect(a), collect(b)
	keys := map[string]bool{}
	for k := range fa {
		keys[k] = true
	}
	for k := range fb {
		keys[k] = true
	}
	ks := make([]string, 0, len(keys))
	for k := range keys {
		ks = append(ks, k)
	}
	sort.Strings(ks)
	for _, k := range ks {
		x, okA := fa[k]
		y, okB := fb[k]
		p := path + "." + k
		if path == "" {
			p = k
		}
		if !okA {
			return fmt.Sprintf("%s: absent != %s", p, fmtVal(y.fd, y.v))
		}
		if !okB {
			return fmt.Sprintf("%s: %s != absent", p, fmtVal(x.fd, x.v))
		}
		if d := diffVal(p, x.fd, x.v, y.v); d != "" {
			return d
		}
	}
	if !bytes.Equal(a.GetUnknown(), b.GetUnknown()) {
		return fmt.Sprintf("%s: unknown fields %x != %x", path, []byte(a.GetUnknown()), []byte(b.GetUnknown()))
	}
	return ""
}

func fmtVal(fd protoreflect.FieldDescriptor, v protoreflect.Value) string {
	s := fmt.Sprintf("%v", v.Interface())
	if m, ok := v.Interface().(protoreflect.Message); ok {
		s = fmt.Sprintf("%v", m.Interface())
	}
	if len(s) > 200 {
		s = s[:200] + "…"
	}
	return s
}

func diffVal(p string, fd protoreflect.FieldDescriptor, a, b protoreflect.Value) string {
	switch {
	case fd.IsList():
		la, lb := a.List(), b.List()
		if la.Len() != lb.Len() {
			return fmt.Sprintf("%s: list length %d != %d", p, la.Len(), lb.Len())
		}
		for i := 0; i < la.Len(); i++ {
			if d := diffScalar(fmt.Sprintf("%s[%d]", p, i), fd, la.Get(i), lb.Get(i)); d != "" {
				return d
			}
		}
		return ""
	case fd.IsMap():
		ma, mb := a.Map(), b.Map()
		if ma.Len() != mb.Len() {
			return fmt.Sprintf("%s: map size %d != %d", p, ma.Len(), mb.Len())
		}
		var d string
		ma.Range(func(k protoreflect.MapKey, va protoreflect.Value) bool {
			if !mb.Has(k) {
				d = fmt.Sprintf("%s[%v]: present != absent", p, k.Interface())
				return false
			}
			d = diffScalar(fmt.Sprintf("%s[%v]", p, k.Interface()), fd.MapValue(), va, mb.Get(k))
			return d == ""
		})
		return d
	}
	return diffScalar(p, fd, a, b)
}

func diffScalar(p string, fd protoreflect.FieldDescriptor, a, b protoreflect.Value) string {
	switch fd.Kind() {
	case protoreflect.MessageKind, protoreflect.GroupKind:
		return diffMsg(p, a.Message(), b.Message())
	case protoreflect.BytesKind:
		if !bytes.Equal(a.Bytes(), b.Bytes()) {
			return fmt.Sprintf("%s: %q != %q", p, a.Bytes(), b.Bytes())
		}
	case protoreflect.FloatKind, protoreflect.DoubleKind:
		x, y := a.Float(), b.Float()
		if math.IsNaN(x) && math.IsNaN(y) {
			return ""
		}
		if x != y || math.Signbit(x) != math.Signbit(y) {
			return fmt.Sprintf("%s: %v != %v", p, x, y)
		}
	default:
		if a.Interface() != b.Interface() {
			return fmt.Sprintf("%s: %v != %v", p, trunc(fmt.Sprintf("%#v", a.Interface())), trunc(fmt.Sprintf("%#v", b.Interface())))
		}
	}
	return ""
}

func trunc(s string) string {
	if len(s) > 200 {
		return s[:200] + "…"
	}
	return s
}

// DiffClass abstracts a Diff string to its field path without indices and
// without values: a stable classification of WHAT differs.
func DiffClass(d string) string {
	i := strings.Index(d, ": ")
	if i < 0 {
		return d
	}
	p := d[:i]
	var sb strings.Builder
	depth := 0
	for _, c := range p {
		switch {
		case c == '[':
			depth++
		case c == ']':
			depth--
			sb.WriteString("[]")
		case depth == 0:
			sb.WriteRune(c)
		}
	}
	rest := d[i+2:]
	kind := "value"
	switch {
	case strings.HasPrefix(rest, "absent != "):
		kind = "missing-on-left"
	case strings.HasSuffix(rest, " != absent"):
		kind = "missing-on-right"
	case strings.HasPrefix(rest, "list length"):
		kind = "list-length"
	case strings.HasPrefix(rest, "unknown fields"):
		kind = "unknown-fields"
	}
	return sb.String() + " (" + kind + ")"
}
