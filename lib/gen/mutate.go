package gen

import (
	"regexp"
	"strings"

	"google.golang.org/protobuf/proto"
	"google.golang.org/protobuf/types/descriptorpb"

	"github.com/bufbuild/protocompile/internal/verifmon/vlib"
)

// Mutant is a model with exactly one catalogued rule broken.
type Mutant struct {
	Op      string            // operator name
	Anchor  string            // R3 case(s) in which protoc was recorded rejecting this rule
	Expect  *regexp.Regexp    // at least one reported error must match (the rule that must fire)
	Sources map[string]string // sources to compile
	Names   []string
}

// Operator breaks one rule. It edits a deep copy of the model's files (or the
// rendered text) and returns false if the model offers no place to apply it.
type Operator struct {
	Name   string
	Anchor string
	Expect string
	// Model-level edit (files are deep copies; index by position).
	Edit func(rng *vlib.RNG, files []*descriptorpb.FileDescriptorProto) bool
	// Text-level edit applied to the canonical rendering of one file.
	Text func(rng *vlib.RNG, files []*descriptorpb.FileDescriptorProto, src map[string]string) bool
}

func syntaxOf(f *descriptorpb.FileDescriptorProto) string {
	switch f.GetSyntax() {
	case "proto3", "editions":
		return f.GetSyntax()
	}
	return "proto2"
}

// walkMsgs visits every message (not map entries) with its file.
func walkMsgs(files []*descriptorpb.FileDescriptorProto, fn func(f *descriptorpb.FileDescriptorProto, fq string, m *descriptorpb.DescriptorProto)) {
	var rec func(f *descriptorpb.FileDescriptorProto, scope string, ms []*descriptorpb.DescriptorProto)
	rec = func(f *descriptorpb.FileDescriptorProto, scope string, ms []*descriptorpb.DescriptorProto) {
		for _, m := range ms {
			if m.GetOptions().GetMapEntry() {
				continue
			}
			fq := joinName(scope, m.GetName())
			fn(f, fq, m)
			rec(f, fq, m.NestedType)
		}
	}
	for _, f := range files {
		if f.GetName() == "opts/options.proto" {
			continue
		}
		rec(f, f.GetPackage(), f.MessageType)
	}
}

type msgRef struct {
	f  *descriptorpb.FileDescriptorProto
	fq string
	m  *descriptorpb.DescriptorProto
}

func pickMsg(rng *vlib.RNG, files []*descriptorpb.FileDescriptorProto, ok func(r msgRef) bool) (msgRef, bool) {
	var c []msgRef
	walkMsgs(files, func(f *descriptorpb.FileDescriptorProto, fq string, m *descriptorpb.DescriptorProto) {
		r := msgRef{f, fq, m}
		if ok(r) {
			c = append(c, r)
		}
	})
	if len(c) == 0 {
		return msgRef{}, false
	}
	return c[rng.Intn(len(c))], true
}

type enumRef struct {
	f  *descriptorpb.FileDescriptorProto
	fq string
	e  *descriptorpb.EnumDescriptorProto
}

func pickEnum(rng *vlib.RNG, files []*descriptorpb.FileDescriptorProto, ok func(r enumRef) bool) (enumRef, bool) {
	var c []enumRef
	for _, f := range files {
		if f.GetName() == "opts/options.proto" {
			continue
		}
		for _, e := range f.EnumType {
			r := enumRef{f, joinName(f.GetPackage(), e.GetName()), e}
			if ok(r) {
				c = append(c, r)
			}
		}
	}
	walkMsgs(files, func(f *descriptorpb.FileDescriptorProto, fq string, m *descriptorpb.DescriptorProto) {
		for _, e := range m.EnumType {
			r := enumRef{f, joinName(fq, e.GetName()), e}
			if ok(r) {
				c = append(c, r)
			}
		}
	})
	if len(c) == 0 {
		return enumRef{}, false
	}
	return c[rng.Intn(len(c))], true
}

func plainFields(m *descriptorpb.DescriptorProto) []*descriptorpb.FieldDescriptorProto {
	var out []*descriptorpb.FieldDescriptorProto
	for _, f := range m.Field {
		out = append(out, f)
	}
	return out
}

func isScalar(f *descriptorpb.FieldDescriptorProto) bool {
	_, ok := scalarNames[f.GetType()]
	return ok
}

// Operators is the catalogue. Every operator's rule is anchored in at least
// one protoc-verified R3 case (Anchor), and Expect is the message of that rule.
var Operators = []Operator{
	{Name: "dup-tag", Anchor: "basic_validation: fields s and i both have the same tag", Expect: `both have the same tag`,
		Edit: func(rng *vlib.RNG, fs []*descriptorpb.FileDescriptorProto) bool {
			r, ok := pickMsg(rng, fs, func(r msgRef) bool { return len(r.m.Field) >= 2 })
			if !ok {
				return false
			}
			i := rng.Intn(len(r.m.Field) - 1)
			r.m.Field[i+1].Number = proto.Int32(r.m.Field[i].GetNumber())
			return true
		}},
	{Name: "tag-in-reserved-range", Anchor: "basic_validation: field foo is using tag # which is in reserved range", Expect: `which is in reserved range`,
		Edit: func(rng *vlib.RNG, fs []*descriptorpb.FileDescriptorProto) bool {
			r, ok := pickMsg(rng, fs, func(r msgRef) bool { return len(r.m.Field) >= 1 && len(r.m.ReservedRange) >= 1 })
			if !ok {
				return false
			}
			rr := r.m.ReservedRange[rng.Intn(len(r.m.ReservedRange))]
			r.m.Field[rng.Intn(len(r.m.Field))].Number = proto.Int32(rr.GetStart() + int32(rng.Intn(int(rr.GetEnd()-rr.GetStart()))))
			return true
		}},
	{Name: "tag-in-extension-range", Anchor: "basic_validation: field foo is using tag # which is in extension range", Expect: `which is in extension range`,
		Edit: func(rng *vlib.RNG, fs []*descriptorpb.FileDescriptorProto) bool {
			r, ok := pickMsg(rng, fs, func(r msgRef) bool { return len(r.m.Field) >= 1 && len(r.m.ExtensionRange) >= 1 })
			if !ok {
				return false
			}
			er := r.m.ExtensionRange[rng.Intn(len(r.m.ExtensionRange))]
			n := er.GetStart()
			if rng.Bool() {
				n = er.GetEnd() - 1
			}
			if n >= 19000 && n <= 19999 {
				n = er.GetStart()
			}
			r.m.Field[rng.Intn(len(r.m.Field))].Number = proto.Int32(n)
			return true
		}},
	{Name: "reserved-ranges-overlap", Anchor: "basic_validation: message Foo: reserved ranges overlap", Expect: `reserved ranges overlap`,
		Edit: func(rng *vlib.RNG, fs []*descriptorpb.FileDescriptorProto) bool {
			r, ok := pickMsg(rng, fs, func(r msgRef) bool { return len(r.m.ReservedRange) >= 1 })
			if !ok {
				return false
			}
			rr := r.m.ReservedRange[0]
			r.m.ReservedRange = append(r.m.ReservedRange, &descriptorpb.DescriptorProto_ReservedRange{Start: proto.Int32(rr.GetEnd() - 1), End: proto.Int32(rr.GetEnd() + 3)})
			return true
		}},
	{Name: "extension-ranges-overlap", Anchor: "basic_validation: message Foo: extension ranges overlap", Expect: `extension ranges overlap`,
		Edit: func(rng *vlib.RNG, fs []*descriptorpb.FileDescriptorProto) bool {
			r, ok := pickMsg(rng, fs, func(r msgRef) bool { return len(r.m.ExtensionRange) >= 1 && r.m.ExtensionRange[0].GetEnd() < 500000000 })
			if !ok {
				return false
			}
			er := r.m.ExtensionRange[0]
			r.m.ExtensionRange = append(r.m.ExtensionRange, &descriptorpb.DescriptorProto_ExtensionRange{Start: proto.Int32(er.GetStart()), End: proto.Int32(er.GetStart() + 1)})
			return true
		}},
	{Name: "extension-range-overlaps-reserved-range", Anchor: "basic_validation: message Foo: extension range 10 to 12 overlaps reserved range 1 to 10", Expect: `overlaps reserved range`,
		Edit: func(rng *vlib.RNG, fs []*descriptorpb.FileDescriptorProto) bool {
			r, ok := pickMsg(rng, fs, func(r msgRef) bool { return syntaxOf(r.f) != "proto3" })
			return ok && overlapAmongDecoys(rng, r.m, 'r', 'e')
		}},
	{Name: "reserved-ranges-overlap-among-many", Anchor: "basic_validation: message Foo: reserved ranges overlap", Expect: `reserved ranges overlap`,
		Edit: func(rng *vlib.RNG, fs []*descriptorpb.FileDescriptorProto) bool {
			r, ok := pickMsg(rng, fs, func(r msgRef) bool { return true })
			return ok && overlapAmongDecoys(rng, r.m, 'r', 'r')
		}},
	{Name: "extension-ranges-overlap-among-many", Anchor: "basic_validation: message Foo: extension ranges overlap", Expect: `extension ranges overlap`,
		Edit: func(rng *vlib.RNG, fs []*descriptorpb.FileDescriptorProto) bool {
			r, ok := pickMsg(rng, fs, func(r msgRef) bool { return syntaxOf(r.f) != "proto3" })
			return ok && overlapAmongDecoys(rng, r.m, 'e', 'e')
		}},
	{Name: "tag-19000", Anchor: "basic_validation: tag number # is in disallowed reserved range", Expect: `is in disallowed reserved range`,
		Edit: func(rng *vlib.RNG, fs []*descriptorpb.FileDescriptorProto) bool {
			r, ok := pickMsg(rng, fs, func(r msgRef) bool { return len(r.m.Field) >= 1 })
			if !ok {
				return false
			}
			r.m.Field[rng.Intn(len(r.m.Field))].Number = proto.Int32(int32(rng.Range(19000, 19999)))
			return true
		}},
	{Name: "tag-above-max", Anchor: "basic_validation: tag number # is higher than max allowed tag number", Expect: `is higher than max allowed tag number`,
		Edit: func(rng *vlib.RNG, fs []*descriptorpb.FileDescriptorProto) bool {
			r, ok := pickMsg(rng, fs, func(r msgRef) bool { return len(r.m.Field) >= 1 })
			if !ok {
				return false
			}
			r.m.Field[rng.Intn(len(r.m.Field))].Number = proto.Int32(536870912)
			return true
		}},
	{Name: "field-uses-reserved-name", Anchor: "basic_validation: message Foo: field foo is using a reserved name", Expect: `is using a reserved name`,
		Edit: func(rng *vlib.RNG, fs []*descriptorpb.FileDescriptorProto) bool {
			r, ok := pickMsg(rng, fs, func(r msgRef) bool {
				return len(r.m.Field) >= 1 && len(r.m.ReservedName) >= 1 && isScalar(r.m.Field[0])
			})
			if !ok {
				return false
			}
			r.m.Field[0].Name = proto.String(r.m.ReservedName[0])
			r.m.Field[0].JsonName = proto.String(jsonName(r.m.ReservedName[0]))
			return true
		}},
	{Name: "enum-value-in-reserved-range", Anchor: "basic_validation: enum Foo: value V# is using number # which is in reserved range", Expect: `which is in reserved range`,
		Edit: func(rng *vlib.RNG, fs []*descriptorpb.FileDescriptorProto) bool {
			r, ok := pickEnum(rng, fs, func(r enumRef) bool { return len(r.e.ReservedRange) >= 1 && len(r.e.Value) >= 2 })
			if !ok {
				return false
			}
			r.e.Value[len(r.e.Value)-1].Number = proto.Int32(r.e.ReservedRange[0].GetStart())
			return true
		}},
	{Name: "enum-duplicate-number-without-alias", Anchor: "basic_validation: values V# and V# both have the same numeric value", Expect: `both have the same numeric value`,
		Edit: func(rng *vlib.RNG, fs []*descriptorpb.FileDescriptorProto) bool {
			r, ok := pickEnum(rng, fs, func(r enumRef) bool { return len(r.e.Value) >= 2 && !r.e.GetOptions().GetAllowAlias() })
			if !ok {
				return false
			}
			r.e.Value[len(r.e.Value)-1].Number = proto.Int32(r.e.Value[0].GetNumber())
			return true
		}},
	{Name: "allow-alias-without-alias", Anchor: "basic_validation: enum Foo: allow_alias is true but no values are aliases", Expect: `allow_alias is true but no values are aliases`,
		Edit: func(rng *vlib.RNG, fs []*descriptorpb.FileDescriptorProto) bool {
			r, ok := pickEnum(rng, fs, func(r enumRef) bool { return !r.e.GetOptions().GetAllowAlias() })
			if !ok {
				return false
			}
			if r.e.Options == nil {
				r.e.Options = &descriptorpb.EnumOptions{}
			}
			r.e.Options.AllowAlias = proto.Bool(true)
			return true
		}},
	{Name: "enum-without-values", Anchor: "basic_validation: enum Foo: enums must define at least one value", Expect: `enums must define at least one value`,
		Edit: func(rng *vlib.RNG, fs []*descriptorpb.FileDescriptorProto) bool {
			// an enum nobody references through a default value; references to it stay valid types
			r, ok := pickEnum(rng, fs, func(r enumRef) bool { return true })
			if !ok {
				return false
			}
			r.e.Value = nil
			if r.e.Options != nil {
				r.e.Options.AllowAlias = nil
			}
			return true
		}},
	{Name: "proto3-enum-first-value-nonzero", Anchor: "basic_validation: enum Foo: proto3 requires that first value of enum have numeric value zero", Expect: `requires that first value of enum have numeric value zero|first value of open enum .* must have numeric value zero`,
		Edit: func(rng *vlib.RNG, fs []*descriptorpb.FileDescriptorProto) bool {
			r, ok := pickEnum(rng, fs, func(r enumRef) bool { return syntaxOf(r.f) == "proto3" && len(r.e.Value) == 1 })
			if !ok {
				return false
			}
			r.e.Value[0].Number = proto.Int32(1)
			return true
		}},
	{Name: "duplicate-message-name", Anchor: "linker_validation: symbol … already defined", Expect: `already defined`,
		Edit: func(rng *vlib.RNG, fs []*descriptorpb.FileDescriptorProto) bool {
			for _, i := range rng.Perm(len(fs)) {
				f := fs[i]
				if f.GetName() != "opts/options.proto" && len(f.MessageType) >= 2 {
					n := len(f.MessageType)
					f.MessageType = append(f.MessageType, &descriptorpb.DescriptorProto{Name: proto.String(f.MessageType[rng.Intn(n)].GetName())})
					return true
				}
			}
			return false
		}},
	{Name: "enum-value-cpp-scope-collision", Anchor: "linker_validation: failure_enum_cpp_scope", Expect: `already defined.*C\+\+ scoping rules`,
		Edit: func(rng *vlib.RNG, fs []*descriptorpb.FileDescriptorProto) bool {
			r, ok := pickEnum(rng, fs, func(r enumRef) bool { return len(r.e.Value) >= 1 })
			if !ok {
				return false
			}
			// a sibling enum that re-declares one of its value names
			sib := &descriptorpb.EnumDescriptorProto{Name: proto.String("ZzSibling"), Value: []*descriptorpb.EnumValueDescriptorProto{
				{Name: proto.String("ZZ_ZERO"), Number: proto.Int32(0)}, {Name: proto.String(r.e.Value[0].GetName()), Number: proto.Int32(1)}}}
			placed := false
			for _, e := range r.f.EnumType {
				if e == r.e {
					r.f.EnumType = append(r.f.EnumType, sib)
					placed = true
				}
			}
			if !placed {
				walkMsgs([]*descriptorpb.FileDescriptorProto{r.f}, func(_ *descriptorpb.FileDescriptorProto, _ string, m *descriptorpb.DescriptorProto) {
					for _, e := range m.EnumType {
						if e == r.e && !placed {
							m.EnumType = append(m.EnumType, sib)
							placed = true
							return
						}
					}
				})
			}
			return placed
		}},
	{Name: "unknown-field-type", Anchor: "linker_validation: field foo.a: unknown type blah", Expect: `unknown type`,
		Edit: func(rng *vlib.RNG, fs []*descriptorpb.FileDescriptorProto) bool {
			r, ok := pickMsg(rng, fs, func(r msgRef) bool {
				for _, f := range r.m.Field {
					if f.GetType() == descriptorpb.FieldDescriptorProto_TYPE_MESSAGE {
						if _, e := mapEntryOf(r.fq, f, r.m.NestedType); e == nil {
							return true
						}
					}
				}
				return false
			})
			if !ok {
				return false
			}
			for _, f := range r.m.Field {
				if f.GetType() == descriptorpb.FieldDescriptorProto_TYPE_MESSAGE {
					if _, e := mapEntryOf(r.fq, f, r.m.NestedType); e == nil {
						f.TypeName = proto.String(".zz.does.not.Exist")
						return true
					}
				}
			}
			return false
		}},
	{Name: "explicit-map-entry-reference", Anchor: "linker_validation: is a synthetic map entry and may not be referenced explicitly", Expect: `is a synthetic map entry and may not be referenced explicitly`,
		Edit: func(rng *vlib.RNG, fs []*descriptorpb.FileDescriptorProto) bool {
			r, ok := pickMsg(rng, fs, func(r msgRef) bool {
				for _, n := range r.m.NestedType {
					if n.GetOptions().GetMapEntry() {
						return true
					}
				}
				return false
			})
			if !ok {
				return false
			}
			for _, n := range r.m.NestedType {
				if n.GetOptions().GetMapEntry() {
					lbl := descriptorpb.FieldDescriptorProto_LABEL_OPTIONAL
					num := freeTag(r.m)
					if num == 0 {
						return false
					}
					r.m.Field = append(r.m.Field, &descriptorpb.FieldDescriptorProto{Name: proto.String("zz_entry_ref"), Number: proto.Int32(num),
						Label: lbl.Enum(), Type: descriptorpb.FieldDescriptorProto_TYPE_MESSAGE.Enum(), TypeName: proto.String("." + r.fq + "." + n.GetName()), JsonName: proto.String("zzEntryRef")})
					return true
				}
			}
			return false
		}},
	{Name: "unknown-extendee", Anchor: "linker_validation: unknown extendee type foobar", Expect: `unknown extendee type`,
		Edit: func(rng *vlib.RNG, fs []*descriptorpb.FileDescriptorProto) bool {
			for _, i := range rng.Perm(len(fs)) {
				f := fs[i]
				if f.GetName() != "opts/options.proto" && len(f.Extension) > 0 {
					f.Extension[rng.Intn(len(f.Extension))].Extendee = proto.String(".zz.NoSuchMessage")
					return true
				}
			}
			return false
		}},
	{Name: "extension-tag-outside-range", Anchor: "linker_validation: extension bar: tag # is not in valid range for extended type Foo", Expect: `is not in valid range for extended type`,
		Edit: func(rng *vlib.RNG, fs []*descriptorpb.FileDescriptorProto) bool {
			for _, i := range rng.Perm(len(fs)) {
				f := fs[i]
				if f.GetName() != "opts/options.proto" && len(f.Extension) > 0 {
					f.Extension[rng.Intn(len(f.Extension))].Number = proto.Int32(1)
					return true
				}
			}
			return false
		}},
	{Name: "default-on-repeated-field", Anchor: "linker_validation: default value cannot be set because field is repeated", Expect: `default value cannot be set because field is repeated`,
		Edit: func(rng *vlib.RNG, fs []*descriptorpb.FileDescriptorProto) bool {
			r, ok := pickMsg(rng, fs, func(r msgRef) bool {
				if syntaxOf(r.f) != "proto2" {
					return false
				}
				for _, f := range r.m.Field {
					if f.GetLabel() == descriptorpb.FieldDescriptorProto_LABEL_REPEATED && f.GetType() == descriptorpb.FieldDescriptorProto_TYPE_INT32 {
						return true
					}
				}
				return false
			})
			if !ok {
				return false
			}
			for _, f := range r.m.Field {
				if f.GetLabel() == descriptorpb.FieldDescriptorProto_LABEL_REPEATED && f.GetType() == descriptorpb.FieldDescriptorProto_TYPE_INT32 {
					f.DefaultValue = proto.String("1")
					return true
				}
			}
			return false
		}},
	{Name: "packed-on-non-repeated", Anchor: "linker_validation: packed option is only allowed on repeated fields", Expect: `packed option is only allowed on repeated fields`,
		Edit: func(rng *vlib.RNG, fs []*descriptorpb.FileDescriptorProto) bool {
			r, ok := pickMsg(rng, fs, func(r msgRef) bool {
				if syntaxOf(r.f) == "editions" {
					return false
				}
				for _, f := range r.m.Field {
					if f.GetLabel() == descriptorpb.FieldDescriptorProto_LABEL_OPTIONAL && f.GetType() == descriptorpb.FieldDescriptorProto_TYPE_INT32 {
						return true
					}
				}
				return false
			})
			if !ok {
				return false
			}
			for _, f := range r.m.Field {
				if f.GetLabel() == descriptorpb.FieldDescriptorProto_LABEL_OPTIONAL && f.GetType() == descriptorpb.FieldDescriptorProto_TYPE_INT32 {
					if f.Options == nil {
						f.Options = &descriptorpb.FieldOptions{}
					}
					f.Options.Packed = proto.Bool(true)
					return true
				}
			}
			return false
		}},
	{Name: "packed-on-string", Anchor: "linker_validation: packed option is only allowed on numeric, boolean, and enum fields", Expect: `packed option is only allowed on numeric, boolean, and enum fields`,
		Edit: func(rng *vlib.RNG, fs []*descriptorpb.FileDescriptorProto) bool {
			r, ok := pickMsg(rng, fs, func(r msgRef) bool {
				if syntaxOf(r.f) == "editions" {
					return false
				}
				for _, f := range r.m.Field {
					if f.GetLabel() == descriptorpb.FieldDescriptorProto_LABEL_REPEATED && f.GetType() == descriptorpb.FieldDescriptorProto_TYPE_STRING {
						return true
					}
				}
				return false
			})
			if !ok {
				return false
			}
			for _, f := range r.m.Field {
				if f.GetLabel() == descriptorpb.FieldDescriptorProto_LABEL_REPEATED && f.GetType() == descriptorpb.FieldDescriptorProto_TYPE_STRING {
					if f.Options == nil {
						f.Options = &descriptorpb.FieldOptions{}
					}
					f.Options.Packed = proto.Bool(true)
					return true
				}
			}
			return false
		}},
	{Name: "jstype-on-32-bit-field", Anchor: "linker_validation: only 64-bit integer fields … can specify a jstype other than JS_NORMAL", Expect: `can specify a jstype other than JS_NORMAL`,
		Edit: func(rng *vlib.RNG, fs []*descriptorpb.FileDescriptorProto) bool {
			r, ok := pickMsg(rng, fs, func(r msgRef) bool {
				for _, f := range r.m.Field {
					if f.GetType() == descriptorpb.FieldDescriptorProto_TYPE_INT32 || f.GetType() == descriptorpb.FieldDescriptorProto_TYPE_STRING {
						return true
					}
				}
				return false
			})
			if !ok {
				return false
			}
			for _, f := range r.m.Field {
				if f.GetType() == descriptorpb.FieldDescriptorProto_TYPE_INT32 || f.GetType() == descriptorpb.FieldDescriptorProto_TYPE_STRING {
					if f.Options == nil {
						f.Options = &descriptorpb.FieldOptions{}
					}
					f.Options.Jstype = descriptorpb.FieldOptions_JS_NUMBER.Enum()
					return true
				}
			}
			return false
		}},
	{Name: "lazy-on-scalar", Anchor: "linker_validation: lazy option can only be used with message fields", Expect: `lazy option can only be used with message fields`,
		Edit: func(rng *vlib.RNG, fs []*descriptorpb.FileDescriptorProto) bool {
			r, ok := pickMsg(rng, fs, func(r msgRef) bool {
				for _, f := range r.m.Field {
					if isScalar(f) {
						return true
					}
				}
				return false
			})
			if !ok {
				return false
			}
			for _, f := range r.m.Field {
				if isScalar(f) {
					if f.Options == nil {
						f.Options = &descriptorpb.FieldOptions{}
					}
					f.Options.Lazy = proto.Bool(true)
					return true
				}
			}
			return false
		}},
	{Name: "missing-import", Anchor: "linker_validation: failure_missing_import (file not found)", Expect: `file not found|file does not exist|could not resolve path`,
		Edit: func(rng *vlib.RNG, fs []*descriptorpb.FileDescriptorProto) bool {
			f := fs[len(fs)-1]
			f.Dependency = append(f.Dependency, "zz/not_there.proto")
			return true
		}},
	{Name: "duplicate-import", Anchor: "basic_validation: \"…\" was already imported", Expect: `was already imported`,
		Edit: func(rng *vlib.RNG, fs []*descriptorpb.FileDescriptorProto) bool {
			for _, i := range rng.Perm(len(fs)) {
				f := fs[i]
				if f.GetName() != "opts/options.proto" && len(f.Dependency) > 0 {
					f.Dependency = append(f.Dependency, f.Dependency[0])
					return true
				}
			}
			return false
		}},
	{Name: "proto3-extension-range", Anchor: "basic_validation: message Foo: extension ranges are not allowed in proto3", Expect: `extension ranges are not allowed in proto3`,
		Edit: func(rng *vlib.RNG, fs []*descriptorpb.FileDescriptorProto) bool {
			r, ok := pickMsg(rng, fs, func(r msgRef) bool { return syntaxOf(r.f) == "proto3" })
			if !ok {
				return false
			}
			r.m.ExtensionRange = append(r.m.ExtensionRange, &descriptorpb.DescriptorProto_ExtensionRange{Start: proto.Int32(536870000), End: proto.Int32(536870010)})
			return true
		}},
	{Name: "proto3-default-value", Anchor: "basic_validation: field Foo.s: default values are not allowed in proto3", Expect: `default values are not allowed in proto3`,
		Edit: func(rng *vlib.RNG, fs []*descriptorpb.FileDescriptorProto) bool {
			r, ok := pickMsg(rng, fs, func(r msgRef) bool {
				if syntaxOf(r.f) != "proto3" {
					return false
				}
				for _, f := range r.m.Field {
					if f.GetLabel() == descriptorpb.FieldDescriptorProto_LABEL_OPTIONAL && f.GetType() == descriptorpb.FieldDescriptorProto_TYPE_INT32 {
						return true
					}
				}
				return false
			})
			if !ok {
				return false
			}
			for _, f := range r.m.Field {
				if f.GetLabel() == descriptorpb.FieldDescriptorProto_LABEL_OPTIONAL && f.GetType() == descriptorpb.FieldDescriptorProto_TYPE_INT32 {
					f.DefaultValue = proto.String("7")
					return true
				}
			}
			return false
		}},
	{Name: "features-outside-editions", Anchor: "basic_validation: option 'features' may only be used with editions", Expect: `option 'features' may only be used with editions`,
		Edit: func(rng *vlib.RNG, fs []*descriptorpb.FileDescriptorProto) bool {
			r, ok := pickMsg(rng, fs, func(r msgRef) bool { return syntaxOf(r.f) != "editions" })
			if !ok {
				return false
			}
			if r.m.Options == nil {
				r.m.Options = &descriptorpb.MessageOptions{}
			}
			r.m.Options.Features = &descriptorpb.FeatureSet{JsonFormat: descriptorpb.FeatureSet_ALLOW.Enum()}
			return true
		}},
	{Name: "editions-packed-option", Anchor: "linker_validation: packed option is not allowed in editions", Expect: `packed option is not allowed in editions`,
		Edit: func(rng *vlib.RNG, fs []*descriptorpb.FileDescriptorProto) bool {
			r, ok := pickMsg(rng, fs, func(r msgRef) bool {
				if syntaxOf(r.f) != "editions" {
					return false
				}
				for _, f := range r.m.Field {
					if f.GetLabel() == descriptorpb.FieldDescriptorProto_LABEL_REPEATED && f.GetType() == descriptorpb.FieldDescriptorProto_TYPE_INT32 {
						return true
					}
				}
				return false
			})
			if !ok {
				return false
			}
			for _, f := range r.m.Field {
				if f.GetLabel() == descriptorpb.FieldDescriptorProto_LABEL_REPEATED && f.GetType() == descriptorpb.FieldDescriptorProto_TYPE_INT32 {
					if f.Options == nil {
						f.Options = &descriptorpb.FieldOptions{}
					}
					f.Options.Packed = proto.Bool(true)
					return true
				}
			}
			return false
		}},
	// ---- text-level operators ----
	{Name: "unknown-file-option", Anchor: "linker_validation: option b: field b of google.protobuf.FileOptions does not exist", Expect: `of google\.protobuf\.FileOptions does not exist`,
		Text: func(rng *vlib.RNG, fs []*descriptorpb.FileDescriptorProto, src map[string]string) bool {
			return appendToFile(rng, fs, src, "option zz_no_such_option = 1;\n")
		}},
	{Name: "option-wrong-value-type", Anchor: "linker_validation: option (f): expecting string, got integer", Expect: `expecting string, got integer`,
		Text: func(rng *vlib.RNG, fs []*descriptorpb.FileDescriptorProto, src map[string]string) bool {
			return appendToFile(rng, fs, src, "option java_outer_classname = 42;\n")
		}},
	{Name: "option-already-set", Anchor: "linker_validation: option (f): non-repeated option field (f) already set", Expect: `non-repeated option field .* already set`,
		Text: func(rng *vlib.RNG, fs []*descriptorpb.FileDescriptorProto, src map[string]string) bool {
			return appendToFile(rng, fs, src, "option cc_enable_arenas = true;\noption cc_enable_arenas = false;\n")
		}},
	{Name: "proto3-required-label", Anchor: "basic_validation: label 'required' is not allowed in proto3 or editions", Expect: `label 'required' is not allowed in proto3 or editions`,
		Text: func(rng *vlib.RNG, fs []*descriptorpb.FileDescriptorProto, src map[string]string) bool {
			return appendToFileIf(rng, fs, src, func(f *descriptorpb.FileDescriptorProto) bool { return syntaxOf(f) != "proto2" }, "message ZzReq { required int32 zz = 1; }\n")
		}},
	{Name: "proto3-group", Anchor: "basic_validation: groups are not allowed in proto3 or editions", Expect: `groups are not allowed in proto3 or editions`,
		Text: func(rng *vlib.RNG, fs []*descriptorpb.FileDescriptorProto, src map[string]string) bool {
			return appendToFileIf(rng, fs, src, func(f *descriptorpb.FileDescriptorProto) bool { return syntaxOf(f) == "proto3" }, "message ZzGrp { repeated group Zg = 1 { } }\n")
		}},
	{Name: "editions-optional-label", Anchor: "basic_validation: label 'optional' is not allowed in editions", Expect: `label 'optional' is not allowed in editions`,
		Text: func(rng *vlib.RNG, fs []*descriptorpb.FileDescriptorProto, src map[string]string) bool {
			return appendToFileIf(rng, fs, src, func(f *descriptorpb.FileDescriptorProto) bool { return syntaxOf(f) == "editions" }, "message ZzOpt { optional int32 zz = 1; }\n")
		}},
	{Name: "proto2-missing-label", Anchor: "basic_validation: field has no label; proto2 requires explicit 'optional' label", Expect: `field has no label; proto2 requires explicit 'optional' label`,
		Text: func(rng *vlib.RNG, fs []*descriptorpb.FileDescriptorProto, src map[string]string) bool {
			return appendToFileIf(rng, fs, src, func(f *descriptorpb.FileDescriptorProto) bool { return syntaxOf(f) == "proto2" }, "message ZzNoLabel { int32 zz = 1; }\n")
		}},
	{Name: "empty-oneof", Anchor: "basic_validation: oneof must contain at least one field", Expect: `oneof must contain at least one field`,
		Text: func(rng *vlib.RNG, fs []*descriptorpb.FileDescriptorProto, src map[string]string) bool {
			return appendToFile(rng, fs, src, "message ZzEmptyOneof { oneof zz { } }\n")
		}},
	{Name: "empty-extend", Anchor: "basic_validation: extend sections must define at least one extension", Expect: `extend sections must define at least one extension`,
		Text: func(rng *vlib.RNG, fs []*descriptorpb.FileDescriptorProto, src map[string]string) bool {
			return appendToFile(rng, fs, src, "message ZzExt { extensions 1 to 5; }\nextend ZzExt { }\n")
		}},
	{Name: "lowercase-group-name", Anchor: "basic_validation: group foo should have a name that starts with a capital letter", Expect: `should have a name that starts with a capital letter`,
		Text: func(rng *vlib.RNG, fs []*descriptorpb.FileDescriptorProto, src map[string]string) bool {
			return appendToFileIf(rng, fs, src, func(f *descriptorpb.FileDescriptorProto) bool { return syntaxOf(f) == "proto2" }, "message ZzG { optional group zzg = 1 { } }\n")
		}},
	{Name: "map-entry-option-explicit", Anchor: "basic_validation: map_entry option should not be set explicitly", Expect: `map_entry option should not be set explicitly`,
		Text: func(rng *vlib.RNG, fs []*descriptorpb.FileDescriptorProto, src map[string]string) bool {
			return appendToFile(rng, fs, src, "message ZzME { option map_entry = true; }\n")
		}},
	{Name: "range-start-after-end", Anchor: "basic_validation: range, # to #, is invalid: start must be <= end", Expect: `is invalid: start must be <= end`,
		Text: func(rng *vlib.RNG, fs []*descriptorpb.FileDescriptorProto, src map[string]string) bool {
			return appendToFile(rng, fs, src, "message ZzR { reserved 9 to 3; }\n")
		}},
	{Name: "json-name-conflict-proto3", Anchor: "linker_validation: default JSON name conflicts with default JSON name of field", Expect: `JSON name ".*" conflicts with`,
		Text: func(rng *vlib.RNG, fs []*descriptorpb.FileDescriptorProto, src map[string]string) bool {
			return appendToFileIf(rng, fs, src, func(f *descriptorpb.FileDescriptorProto) bool { return syntaxOf(f) == "proto3" }, "message ZzJ { string foo_bar = 1; string fooBar = 2; }\n")
		}},
}

func appendToFile(rng *vlib.RNG, fs []*descriptorpb.FileDescriptorProto, src map[string]string, text string) bool {
	return appendToFileIf(rng, fs, src, func(*descriptorpb.FileDescriptorProto) bool { return true }, text)
}

func appendToFileIf(rng *vlib.RNG, fs []*descriptorpb.FileDescriptorProto, src map[string]string, ok func(*descriptorpb.FileDescriptorProto) bool, text string) bool {
	for _, i := range rng.Perm(len(fs)) {
		f := fs[i]
		if f.GetName() == "opts/options.proto" || !ok(f) {
			continue
		}
		s, have := src[f.GetName()]
		if !have {
			continue
		}
		// file-level option statements are legal anywhere at top level; message
		// declarations too. Put the text at the end.
		if !strings.HasSuffix(s, "\n") {
			s += "\n"
		}
		src[f.GetName()] = s + text
		return true
	}
	return false
}

// Mutate applies op to a deep copy of m. ok=false if not applicable.
func Mutate(rng *vlib.RNG, m *Model, op *Operator) (*Mutant, bool, error) {
	files := make([]*descriptorpb.FileDescriptorProto, len(m.Files))
	for i, f := range m.Files {
		n, err := Normalize(f, m.Types)
		if err != nil {
			return nil, false, err
		}
		files[i] = n
	}
	mu := &Mutant{Op: op.Name, Anchor: op.Anchor, Expect: regexp.MustCompile(op.Expect), Sources: map[string]string{}}
	if op.Edit != nil {
		if !op.Edit(rng, files) {
			return nil, false, nil
		}
	}
	for _, f := range files {
		s, err := Render(f, m.Types, nil)
		if err != nil {
			return nil, false, err
		}
		mu.Sources[f.GetName()] = s
		mu.Names = append(mu.Names, f.GetName())
	}
	if op.Text != nil {
		if !op.Text(rng, files, mu.Sources) {
			return nil, false, nil
		}
	}
	return mu, true, nil
}

// freeTag returns a field number that no field, reserved range or extension range of m uses (0 if none below 5000).
func freeTag(m *descriptorpb.DescriptorProto) int32 {
	for n := int32(200); n < 5000; n++ {
		ok := true
		for _, f := range m.Field {
			if f.GetNumber() == n {
				ok = false
			}
		}
		for _, r := range m.ReservedRange {
			if n >= r.GetStart() && n < r.GetEnd() {
				ok = false
			}
		}
		for _, r := range m.ExtensionRange {
			if n >= r.GetStart() && n < r.GetEnd() {
				ok = false
			}
		}
		if ok {
			return n
		}
	}
	return 0
}

// overlapAmongDecoys adds, in a free region of the message's number space, up to four disjoint
// reserved/extension ranges ("decoys") and one pair of ranges of kinds a and b ('r' reserved, 'e'
// extension) that overlap in at least one number. The position of the pair among the decoys, which of
// the two starts lower, how far they overlap and the declaration order are all random, so the
// overlapping pair is generally neither the first nor the last in sorted order.
func overlapAmongDecoys(rng *vlib.RNG, m *descriptorpb.DescriptorProto, a, b byte) bool {
	used := func(lo, hi int32) bool { // [lo, hi] touches something declared
		for _, f := range m.Field {
			if f.GetNumber() >= lo && f.GetNumber() <= hi {
				return true
			}
		}
		for _, x := range m.ReservedRange {
			if x.GetStart() <= hi && x.GetEnd()-1 >= lo {
				return true
			}
		}
		for _, x := range m.ExtensionRange {
			if x.GetStart() <= hi && x.GetEnd()-1 >= lo {
				return true
			}
		}
		return false
	}
	var base int32
	found := false
	for try := 0; try < 50 && !found; try++ {
		base = int32(rng.Range(20000, 2000000))
		found = !used(base, base+1000)
	}
	if !found {
		return false
	}
	type rg struct {
		kind   byte
		lo, hi int32 // inclusive
	}
	var all []rg
	slots := rng.Range(1, 5)
	pairAt := rng.Intn(slots)
	for i := 0; i < slots; i++ {
		lo := base + int32(i)*150
		if i != pairAt {
			k := byte('r')
			if rng.Bool() && (a == 'e' || b == 'e') {
				k = 'e'
			}
			all = append(all, rg{k, lo, lo + int32(rng.Range(0, 40))})
			continue
		}
		first, second := a, b
		if rng.Bool() {
			first, second = b, a
		}
		w := int32(rng.Range(0, 30))
		x := rg{first, lo, lo + w}
		var y rg
		switch rng.Intn(4) {
		case 0: // touches the last number only
			y = rg{second, lo + w, lo + w + int32(rng.Range(0, 30))}
		case 1: // contained
			s0 := lo + int32(rng.Intn(int(w)+1))
			y = rg{second, s0, s0 + int32(rng.Intn(int(lo+w-s0)+1))}
		case 2: // identical
			y = rg{second, lo, lo + w}
		default: // partial
			s0 := lo + int32(rng.Intn(int(w)+1))
			y = rg{second, s0, lo + w + int32(rng.Range(1, 30))}
		}
		all = append(all, x, y)
	}
	vlib.Shuffle(rng, all)
	for _, x := range all {
		if x.kind == 'r' {
			m.ReservedRange = append(m.ReservedRange, &descriptorpb.DescriptorProto_ReservedRange{Start: proto.Int32(x.lo), End: proto.Int32(x.hi + 1)})
		} else {
			m.ExtensionRange = append(m.ExtensionRange, &descriptorpb.DescriptorProto_ExtensionRange{Start: proto.Int32(x.lo), End: proto.Int32(x.hi + 1)})
		}
	}
	if rng.Bool() {
		// existing ranges declared after the new ones
		if n := len(m.ReservedRange); n > 1 {
			m.ReservedRange[0], m.ReservedRange[n-1] = m.ReservedRange[n-1], m.ReservedRange[0]
		}
	}
	return true
}
