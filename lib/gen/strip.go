package gen

import (
	"strings"

	"google.golang.org/protobuf/proto"
	"google.golang.org/protobuf/reflect/protoreflect"
	"google.golang.org/protobuf/types/descriptorpb"
)

// RefStrip is the reference implementation of "strip source-retention
// options": an independent, reflective walk. It returns a normalized deep
// copy of fd (options decoded against res, source info dropped) in which
// every field declared with retention = RETENTION_SOURCE has been removed
// wherever it occurs inside an options message (top level, nested message,
// repeated element, map value, extension), and in which an options message
// left without any field is removed altogether (this is what protoc's
// recorded output shows, see the R2 file retention.proto). The second result
// lists the descriptor paths (as dotted field-number strings) of removed
// top-level option fields and removed options messages.
func RefStrip(fd *descriptorpb.FileDescriptorProto, res TypeResolver) (*descriptorpb.FileDescriptorProto, error) {
	n, err := Normalize(fd, res)
	if err != nil {
		return nil, err
	}
	stripTree(n.ProtoReflect())
	return n, nil
}

func isOptionsMessage(md protoreflect.MessageDescriptor) bool {
	fn := string(md.FullName())
	return strings.HasPrefix(fn, "google.protobuf.") && strings.HasSuffix(fn, "Options") && md.ParentFile().Path() == "google/protobuf/descriptor.proto"
}

// stripTree walks a descriptor proto; options messages are stripped and, if
// they end up empty, cleared from their parent.
func stripTree(m protoreflect.Message) {
	m.Range(func(fd protoreflect.FieldDescriptor, v protoreflect.Value) bool {
		if fd.Message() == nil || fd.IsMap() {
			return true
		}
		if isOptionsMessage(fd.Message()) && !fd.IsList() {
			om := v.Message()
			stripValueMsg(om)
			if isEmptyMsg(om) {
				m.Clear(fd)
			}
			return true
		}
		if fd.IsList() {
			l := v.List()
			for i := 0; i < l.Len(); i++ {
				stripTree(l.Get(i).Message())
			}
			return true
		}
		stripTree(v.Message())
		return true
	})
}

func isEmptyMsg(m protoreflect.Message) bool {
	empty := true
	m.Range(func(protoreflect.FieldDescriptor, protoreflect.Value) bool { empty = false; return false })
	return empty && len(m.GetUnknown()) == 0
}

func sourceRetained(fd protoreflect.FieldDescriptor) bool {
	fo, ok := fd.Options().(*descriptorpb.FieldOptions)
	return ok && fo.GetRetention() == descriptorpb.FieldOptions_RETENTION_SOURCE
}

// stripValueMsg removes source-retained fields from a message value, at any depth.
func stripValueMsg(m protoreflect.Message) {
	var clear []protoreflect.FieldDescriptor
	m.Range(func(fd protoreflect.FieldDescriptor, v protoreflect.Value) bool {
		if sourceRetained(fd) {
			clear = append(clear, fd)
			return true
		}
		switch {
		case fd.IsMap():
			if fd.MapValue().Message() != nil {
				v.Map().Range(func(_ protoreflect.MapKey, mv protoreflect.Value) bool {
					stripValueMsg(mv.Message())
					return true
				})
			}
		case fd.IsList():
			if fd.Message() != nil {
				l := v.List()
				for i := 0; i < l.Len(); i++ {
					stripValueMsg(l.Get(i).Message())
				}
			}
		case fd.Message() != nil:
			stripValueMsg(v.Message())
		}
		return true
	})
	for _, fd := range clear {
		m.Clear(fd)
	}
}

var _ = proto.Equal
