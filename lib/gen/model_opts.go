package gen

import (
	"fmt"
	"math"

	"google.golang.org/protobuf/proto"
	"google.golang.org/protobuf/reflect/protoreflect"
	"google.golang.org/protobuf/reflect/protoregistry"
	"google.golang.org/protobuf/types/descriptorpb"
	"google.golang.org/protobuf/types/dynamicpb"

	"github.com/bufbuild/protocompile/internal/verifmon/vlib"
)

// optSchema is a generated file of custom options (extensions of the
// google.protobuf.*Options messages) and the value types they use.
type optSchema struct {
	file  *descriptorpb.FileDescriptorProto
	reg   *protoregistry.Files
	types *protoregistry.Types
	exts  map[string][]protoreflect.ExtensionDescriptor // by options message name ("FileOptions", ...)
	pkg   string
}

var optionKinds = []string{"FileOptions", "MessageOptions", "FieldOptions", "OneofOptions", "EnumOptions", "EnumValueOptions", "ServiceOptions", "MethodOptions", "ExtensionRangeOptions"}

var targetFor = map[string]descriptorpb.FieldOptions_OptionTargetType{
	"FileOptions":           descriptorpb.FieldOptions_TARGET_TYPE_FILE,
	"MessageOptions":        descriptorpb.FieldOptions_TARGET_TYPE_MESSAGE,
	"FieldOptions":          descriptorpb.FieldOptions_TARGET_TYPE_FIELD,
	"OneofOptions":          descriptorpb.FieldOptions_TARGET_TYPE_ONEOF,
	"EnumOptions":           descriptorpb.FieldOptions_TARGET_TYPE_ENUM,
	"EnumValueOptions":      descriptorpb.FieldOptions_TARGET_TYPE_ENUM_ENTRY,
	"ServiceOptions":        descriptorpb.FieldOptions_TARGET_TYPE_SERVICE,
	"MethodOptions":         descriptorpb.FieldOptions_TARGET_TYPE_METHOD,
	"ExtensionRangeOptions": descriptorpb.FieldOptions_TARGET_TYPE_EXTENSION_RANGE,
}

func (g *gstate) retention() *descriptorpb.FieldOptions {
	switch g.rng.Intn(6) {
	case 0:
		g.tag("retention:source")
		return &descriptorpb.FieldOptions{Retention: descriptorpb.FieldOptions_RETENTION_SOURCE.Enum()}
	case 1:
		return &descriptorpb.FieldOptions{Retention: descriptorpb.FieldOptions_RETENTION_RUNTIME.Enum()}
	}
	return nil
}

// genOptionSchema generates the option schema file and registers it as file 0.
func (g *gstate) genOptionSchema() (*optSchema, error) {
	pkg := vlib.Pick(g.rng, []string{"optpkg", "a.opts", "o"})
	parts := splitDots(pkg)
	for i := range parts {
		g.used[joinDots(parts[:i+1])] = 'p'
	}
	L := func(l descriptorpb.FieldDescriptorProto_Label) *descriptorpb.FieldDescriptorProto_Label {
		return l.Enum()
	}
	opt, rep := L(descriptorpb.FieldDescriptorProto_LABEL_OPTIONAL), L(descriptorpb.FieldDescriptorProto_LABEL_REPEATED)
	fld := func(name string, num int32, label *descriptorpb.FieldDescriptorProto_Label, t descriptorpb.FieldDescriptorProto_Type, tn string) *descriptorpb.FieldDescriptorProto {
		f := &descriptorpb.FieldDescriptorProto{Name: proto.String(name), Number: proto.Int32(num), Label: label, Type: t.Enum(), JsonName: proto.String(jsonName(name))}
		if tn != "" {
			f.TypeName = proto.String("." + pkg + "." + tn)
		}
		if o := g.retention(); o != nil && g.rng.Chance(0.5) {
			f.Options = o
		}
		return f
	}
	T := descriptorpb.FieldDescriptorProto_TYPE_INT32
	_ = T
	inner := &descriptorpb.DescriptorProto{Name: proto.String("Inner"), Field: []*descriptorpb.FieldDescriptorProto{
		fld("x", 1, opt, descriptorpb.FieldDescriptorProto_TYPE_INT32, ""),
		fld("next", 2, opt, descriptorpb.FieldDescriptorProto_TYPE_MESSAGE, "OptMsg.Inner"),
		fld("names", 3, rep, descriptorpb.FieldDescriptorProto_TYPE_STRING, ""),
		fld("flag", 4, opt, descriptorpb.FieldDescriptorProto_TYPE_BOOL, ""),
	}}
	grp := &descriptorpb.DescriptorProto{Name: proto.String("Grp"), Field: []*descriptorpb.FieldDescriptorProto{
		fld("gi", 1, opt, descriptorpb.FieldDescriptorProto_TYPE_INT32, ""),
		fld("gs", 2, opt, descriptorpb.FieldDescriptorProto_TYPE_STRING, ""),
	}}
	mEntry := &descriptorpb.DescriptorProto{Name: proto.String("MEntry"), Options: &descriptorpb.MessageOptions{MapEntry: proto.Bool(true)}, Field: []*descriptorpb.FieldDescriptorProto{
		{Name: proto.String("key"), Number: proto.Int32(1), Label: opt, Type: descriptorpb.FieldDescriptorProto_TYPE_STRING.Enum(), JsonName: proto.String("key")},
		{Name: proto.String("value"), Number: proto.Int32(2), Label: opt, Type: descriptorpb.FieldDescriptorProto_TYPE_INT32.Enum(), JsonName: proto.String("value")},
	}}
	mmEntry := &descriptorpb.DescriptorProto{Name: proto.String("MmEntry"), Options: &descriptorpb.MessageOptions{MapEntry: proto.Bool(true)}, Field: []*descriptorpb.FieldDescriptorProto{
		{Name: proto.String("key"), Number: proto.Int32(1), Label: opt, Type: descriptorpb.FieldDescriptorProto_TYPE_INT32.Enum(), JsonName: proto.String("key")},
		{Name: proto.String("value"), Number: proto.Int32(2), Label: opt, Type: descriptorpb.FieldDescriptorProto_TYPE_MESSAGE.Enum(), TypeName: proto.String("." + pkg + ".OptMsg.Inner"), JsonName: proto.String("value")},
	}}
	om := &descriptorpb.DescriptorProto{Name: proto.String("OptMsg")}
	om.NestedType = []*descriptorpb.DescriptorProto{inner, grp, mEntry, mmEntry}
	om.Field = []*descriptorpb.FieldDescriptorProto{
		fld("i", 1, opt, descriptorpb.FieldDescriptorProto_TYPE_INT32, ""),
		fld("s", 2, opt, descriptorpb.FieldDescriptorProto_TYPE_STRING, ""),
		fld("r", 3, rep, descriptorpb.FieldDescriptorProto_TYPE_INT64, ""),
		fld("in", 4, opt, descriptorpb.FieldDescriptorProto_TYPE_MESSAGE, "OptMsg.Inner"),
		fld("e", 5, opt, descriptorpb.FieldDescriptorProto_TYPE_ENUM, "OptEnum"),
		fld("grp", 6, opt, descriptorpb.FieldDescriptorProto_TYPE_GROUP, "OptMsg.Grp"),
		{Name: proto.String("m"), Number: proto.Int32(7), Label: rep, Type: descriptorpb.FieldDescriptorProto_TYPE_MESSAGE.Enum(), TypeName: proto.String("." + pkg + ".OptMsg.MEntry"), JsonName: proto.String("m")},
		{Name: proto.String("mm"), Number: proto.Int32(8), Label: rep, Type: descriptorpb.FieldDescriptorProto_TYPE_MESSAGE.Enum(), TypeName: proto.String("." + pkg + ".OptMsg.MmEntry"), JsonName: proto.String("mm")},
		{Name: proto.String("ob"), Number: proto.Int32(9), Label: opt, Type: descriptorpb.FieldDescriptorProto_TYPE_BOOL.Enum(), JsonName: proto.String("ob"), OneofIndex: proto.Int32(0)},
		{Name: proto.String("os"), Number: proto.Int32(10), Label: opt, Type: descriptorpb.FieldDescriptorProto_TYPE_STRING.Enum(), JsonName: proto.String("os"), OneofIndex: proto.Int32(0)},
		fld("b", 11, opt, descriptorpb.FieldDescriptorProto_TYPE_BYTES, ""),
		fld("d", 12, opt, descriptorpb.FieldDescriptorProto_TYPE_DOUBLE, ""),
		fld("f", 13, opt, descriptorpb.FieldDescriptorProto_TYPE_FLOAT, ""),
		fld("rin", 14, rep, descriptorpb.FieldDescriptorProto_TYPE_MESSAGE, "OptMsg.Inner"),
		fld("u64", 15, opt, descriptorpb.FieldDescriptorProto_TYPE_UINT64, ""),
		fld("s32", 16, opt, descriptorpb.FieldDescriptorProto_TYPE_SINT32, ""),
		fld("fx", 17, opt, descriptorpb.FieldDescriptorProto_TYPE_FIXED32, ""),
		fld("sf64", 18, opt, descriptorpb.FieldDescriptorProto_TYPE_SFIXED64, ""),
		fld("re", 19, rep, descriptorpb.FieldDescriptorProto_TYPE_ENUM, "OptEnum"),
		fld("u32", 20, opt, descriptorpb.FieldDescriptorProto_TYPE_UINT32, ""),
		fld("i64", 21, opt, descriptorpb.FieldDescriptorProto_TYPE_INT64, ""),
	}
	om.OneofDecl = []*descriptorpb.OneofDescriptorProto{{Name: proto.String("o")}}
	om.ExtensionRange = []*descriptorpb.DescriptorProto_ExtensionRange{{Start: proto.Int32(100), End: proto.Int32(201)}}
	oe := &descriptorpb.EnumDescriptorProto{Name: proto.String("OptEnum"), Value: []*descriptorpb.EnumValueDescriptorProto{
		{Name: proto.String("OPT_ZERO"), Number: proto.Int32(0)},
		{Name: proto.String("OPT_ONE"), Number: proto.Int32(1)},
		{Name: proto.String("OPT_NEG"), Number: proto.Int32(-1)},
		{Name: proto.String("OPT_BIG"), Number: proto.Int32(math.MaxInt32)},
	}}
	fd := &descriptorpb.FileDescriptorProto{
		Name:        proto.String("opts/options.proto"),
		Package:     proto.String(pkg),
		Dependency:  []string{"google/protobuf/descriptor.proto"},
		MessageType: []*descriptorpb.DescriptorProto{om},
		EnumType:    []*descriptorpb.EnumDescriptorProto{oe},
	}
	for _, n := range []string{"OptMsg", "OptMsg.Inner", "OptMsg.Grp", "OptMsg.MEntry", "OptMsg.MmEntry", "OptEnum", "OPT_ZERO", "OPT_ONE", "OPT_NEG", "OPT_BIG", "msg_ext", "inner_ext", "rep_ext"} {
		g.claim(pkg + "." + n)
	}
	// extensions of OptMsg (extensions of extensions)
	ext := func(name string, num int32, label *descriptorpb.FieldDescriptorProto_Label, t descriptorpb.FieldDescriptorProto_Type, tn, extendee string) *descriptorpb.FieldDescriptorProto {
		f := fld(name, num, label, t, tn)
		f.Extendee = proto.String(extendee)
		return f
	}
	fd.Extension = append(fd.Extension,
		ext("msg_ext", 100, opt, descriptorpb.FieldDescriptorProto_TYPE_STRING, "", "."+pkg+".OptMsg"),
		ext("inner_ext", 101, opt, descriptorpb.FieldDescriptorProto_TYPE_MESSAGE, "OptMsg.Inner", "."+pkg+".OptMsg"),
		ext("rep_ext", 102, rep, descriptorpb.FieldDescriptorProto_TYPE_INT32, "", "."+pkg+".OptMsg"),
	)
	// custom options per options kind
	num := int32(50000)
	type kindT struct {
		t  descriptorpb.FieldDescriptorProto_Type
		tn string
		sf string
	}
	kinds := []kindT{
		{descriptorpb.FieldDescriptorProto_TYPE_INT32, "", "i32"}, {descriptorpb.FieldDescriptorProto_TYPE_STRING, "", "str"},
		{descriptorpb.FieldDescriptorProto_TYPE_MESSAGE, "OptMsg", "msg"}, {descriptorpb.FieldDescriptorProto_TYPE_ENUM, "OptEnum", "enm"},
		{descriptorpb.FieldDescriptorProto_TYPE_BOOL, "", "bool"}, {descriptorpb.FieldDescriptorProto_TYPE_DOUBLE, "", "dbl"},
		{descriptorpb.FieldDescriptorProto_TYPE_BYTES, "", "byt"}, {descriptorpb.FieldDescriptorProto_TYPE_UINT64, "", "u64"},
		{descriptorpb.FieldDescriptorProto_TYPE_SINT64, "", "s64"}, {descriptorpb.FieldDescriptorProto_TYPE_FIXED32, "", "f32"},
		{descriptorpb.FieldDescriptorProto_TYPE_FLOAT, "", "flt"}, {descriptorpb.FieldDescriptorProto_TYPE_MESSAGE, "OptMsg.Inner", "inr"},
	}
	for _, ok := range optionKinds {
		short := map[string]string{"FileOptions": "file", "MessageOptions": "msg", "FieldOptions": "fld", "OneofOptions": "oneof", "EnumOptions": "enum",
			"EnumValueOptions": "val", "ServiceOptions": "svc", "MethodOptions": "mtd", "ExtensionRangeOptions": "rng"}[ok]
		n := g.rng.Range(3, 6)
		perm := g.rng.Perm(len(kinds))
		for i := 0; i < n; i++ {
			k := kinds[perm[i]]
			label := opt
			nm := fmt.Sprintf("%s_%s", short, k.sf)
			if g.rng.Chance(0.3) {
				label = rep
				nm = fmt.Sprintf("%s_r%s", short, k.sf)
			}
			num++
			x := &descriptorpb.FieldDescriptorProto{Name: proto.String(nm), Number: proto.Int32(num), Label: label, Type: k.t.Enum(), JsonName: proto.String(jsonName(nm)),
				Extendee: proto.String(".google.protobuf." + ok)}
			if k.tn != "" {
				x.TypeName = proto.String("." + pkg + "." + k.tn)
			}
			x.Options = g.retention()
			if g.rng.Chance(0.15) {
				if x.Options == nil {
					x.Options = &descriptorpb.FieldOptions{}
				}
				x.Options.Targets = []descriptorpb.FieldOptions_OptionTargetType{targetFor[ok]}
				g.tag("option:targets")
			}
			g.claim(pkg + "." + nm)
			fd.Extension = append(fd.Extension, x)
		}
	}
	reg, err := BuildFiles([]*descriptorpb.FileDescriptorProto{fd})
	if err != nil {
		return nil, fmt.Errorf("option schema refused by protodesc: %w", err)
	}
	os := &optSchema{file: fd, reg: reg, types: TypesOf(reg), exts: map[string][]protoreflect.ExtensionDescriptor{}, pkg: pkg}
	f, _ := reg.FindFileByPath(fd.GetName())
	xs := f.Extensions()
	for i := 0; i < xs.Len(); i++ {
		x := xs.Get(i)
		if x.ContainingMessage().ParentFile().Path() == "google/protobuf/descriptor.proto" {
			k := string(x.ContainingMessage().Name())
			os.exts[k] = append(os.exts[k], x)
		}
	}
	fi := &fileInfo{fd: fd, syntax: "proto2", visible: map[int]bool{0: true}, isOptSchema: true}
	g.files = append(g.files, fi)
	g.tag("option-schema")
	return os, nil
}

func splitDots(s string) []string {
	var out []string
	cur := ""
	for _, c := range s {
		if c == '.' {
			out = append(out, cur)
			cur = ""
		} else {
			cur += string(c)
		}
	}
	return append(out, cur)
}

func joinDots(p []string) string {
	s := ""
	for i, x := range p {
		if i > 0 {
			s += "."
		}
		s += x
	}
	return s
}

// applyOptions sets custom option values on elements of the file.
func (g *gstate) applyOptions(fi *fileInfo, os *optSchema) {
	fd := fi.fd
	set := func(kind string, get func() proto.Message, p float64) {
		if !g.rng.Chance(p) {
			return
		}
		xs := os.exts[kind]
		if len(xs) == 0 {
			return
		}
		opts := get()
		n := g.rng.Range(1, 2)
		for _, j := range g.rng.Perm(len(xs)) {
			if n == 0 {
				break
			}
			n--
			xd := xs[j]
			xt := dynamicpb.NewExtensionType(xd)
			v := g.optValue(os, xd, 0)
			if !v.IsValid() {
				continue
			}
			opts.ProtoReflect().Set(xt.TypeDescriptor(), v)
			g.tag("option:custom:" + kind)
		}
	}
	set("FileOptions", func() proto.Message {
		if fd.Options == nil {
			fd.Options = &descriptorpb.FileOptions{}
		}
		return fd.Options
	}, 0.5)
	var doMsg func(m *descriptorpb.DescriptorProto)
	doEnum := func(e *descriptorpb.EnumDescriptorProto) {
		set("EnumOptions", func() proto.Message {
			if e.Options == nil {
				e.Options = &descriptorpb.EnumOptions{}
			}
			return e.Options
		}, 0.3)
		for _, v := range e.Value {
			v := v
			set("EnumValueOptions", func() proto.Message {
				if v.Options == nil {
					v.Options = &descriptorpb.EnumValueOptions{}
				}
				return v.Options
			}, 0.15)
		}
	}
	doField := func(f *descriptorpb.FieldDescriptorProto) {
		set("FieldOptions", func() proto.Message {
			if f.Options == nil {
				f.Options = &descriptorpb.FieldOptions{}
			}
			return f.Options
		}, 0.2)
	}
	doMsg = func(m *descriptorpb.DescriptorProto) {
		if m.GetOptions().GetMapEntry() {
			return
		}
		set("MessageOptions", func() proto.Message {
			if m.Options == nil {
				m.Options = &descriptorpb.MessageOptions{}
			}
			return m.Options
		}, 0.3)
		for _, f := range m.Field {
			doField(f)
		}
		for _, f := range m.Extension {
			doField(f)
		}
		for _, o := range m.OneofDecl {
			o := o
			if len(o.GetName()) > 0 && o.GetName()[0] == '_' {
				continue // synthetic
			}
			if isSyntheticOneof(m, o) {
				continue
			}
			set("OneofOptions", func() proto.Message {
				if o.Options == nil {
					o.Options = &descriptorpb.OneofOptions{}
				}
				return o.Options
			}, 0.3)
		}
		for _, r := range m.ExtensionRange {
			r := r
			set("ExtensionRangeOptions", func() proto.Message {
				if r.Options == nil {
					r.Options = &descriptorpb.ExtensionRangeOptions{}
				}
				return r.Options
			}, 0.3)
		}
		for _, e := range m.EnumType {
			doEnum(e)
		}
		for _, n := range m.NestedType {
			doMsg(n)
		}
	}
	for _, m := range fd.MessageType {
		doMsg(m)
	}
	for _, e := range fd.EnumType {
		doEnum(e)
	}
	for _, f := range fd.Extension {
		doField(f)
	}
	for _, s := range fd.Service {
		s := s
		set("ServiceOptions", func() proto.Message {
			if s.Options == nil {
				s.Options = &descriptorpb.ServiceOptions{}
			}
			return s.Options
		}, 0.4)
		for _, m := range s.Method {
			m := m
			set("MethodOptions", func() proto.Message {
				if m.Options == nil {
					m.Options = &descriptorpb.MethodOptions{}
				}
				return m.Options
			}, 0.4)
		}
	}
}

func isSyntheticOneof(m *descriptorpb.DescriptorProto, o *descriptorpb.OneofDescriptorProto) bool {
	idx := -1
	for i, x := range m.OneofDecl {
		if x == o {
			idx = i
		}
	}
	for _, f := range m.Field {
		if f.OneofIndex != nil && int(f.GetOneofIndex()) == idx && f.GetProto3Optional() {
			return true
		}
	}
	return false
}

// optValue generates a value for an option field (list for repeated fields).
func (g *gstate) optValue(os *optSchema, fd protoreflect.FieldDescriptor, depth int) protoreflect.Value {
	if fd.IsList() {
		l := dynamicListOf(fd)
		n := g.rng.Range(1, 3)
		for i := 0; i < n; i++ {
			l.Append(g.optScalar(os, fd, depth))
		}
		return protoreflect.ValueOfList(l)
	}
	return g.optScalar(os, fd, depth)
}

// dynamicListOf makes an empty list value for a repeated extension/field.
func dynamicListOf(fd protoreflect.FieldDescriptor) protoreflect.List {
	if fd.IsExtension() {
		return dynamicpb.NewExtensionType(fd.(protoreflect.ExtensionDescriptor)).New().List()
	}
	m := dynamicpb.NewMessage(fd.ContainingMessage())
	return m.Mutable(fd).List()
}

func (g *gstate) optScalar(os *optSchema, fd protoreflect.FieldDescriptor, depth int) protoreflect.Value {
	r := g.rng
	switch fd.Kind() {
	case protoreflect.BoolKind:
		return protoreflect.ValueOfBool(r.Bool())
	case protoreflect.Int32Kind, protoreflect.Sint32Kind, protoreflect.Sfixed32Kind:
		return protoreflect.ValueOfInt32(vlib.Pick(r, []int32{0, 1, -1, math.MaxInt32, math.MinInt32, int32(r.Range(-5000, 5000))}))
	case protoreflect.Int64Kind, protoreflect.Sint64Kind, protoreflect.Sfixed64Kind:
		return protoreflect.ValueOfInt64(vlib.Pick(r, []int64{0, 1, -1, math.MaxInt64, math.MinInt64, int64(r.Range(-500000, 500000))}))
	case protoreflect.Uint32Kind, protoreflect.Fixed32Kind:
		return protoreflect.ValueOfUint32(vlib.Pick(r, []uint32{0, 1, math.MaxUint32, uint32(r.Range(0, 100000))}))
	case protoreflect.Uint64Kind, protoreflect.Fixed64Kind:
		return protoreflect.ValueOfUint64(vlib.Pick(r, []uint64{0, 1, math.MaxUint64, uint64(r.Range(0, 100000))}))
	case protoreflect.FloatKind:
		return protoreflect.ValueOfFloat32(vlib.Pick(r, []float32{0, 1, -1, 1.5, -2.25, 3.14, 1e10, 1e-10, float32(math.Inf(1)), float32(math.Inf(-1)), float32(math.NaN()), math.MaxFloat32}))
	case protoreflect.DoubleKind:
		return protoreflect.ValueOfFloat64(vlib.Pick(r, []float64{0, 1, -1, 1.5, -2.25, 3.14159, 1e100, 1e-100, math.Inf(1), math.Inf(-1), math.NaN(), math.MaxFloat64, float64(r.Range(-1000, 1000)) / 8}))
	case protoreflect.StringKind:
		return protoreflect.ValueOfString(vlib.Pick(r, []string{"", "x", "hello world", "quote\"d", "it's", "tab\t", "nl\n", "back\\slash", "ünï€😀", "\x01\x7f", "a/b.c"}))
	case protoreflect.BytesKind:
		return protoreflect.ValueOfBytes([]byte(vlib.Pick(r, []string{"", "abc", "\x00\x01\xff", "\"'\\", "\xe1\x37", "\n\r\t"})))
	case protoreflect.EnumKind:
		vs := fd.Enum().Values()
		return protoreflect.ValueOfEnum(vs.Get(r.Intn(vs.Len())).Number())
	case protoreflect.MessageKind, protoreflect.GroupKind:
		return protoreflect.ValueOfMessage(g.optMessage(os, fd.Message(), depth+1))
	}
	return protoreflect.Value{}
}

func (g *gstate) optMessage(os *optSchema, md protoreflect.MessageDescriptor, depth int) protoreflect.Message {
	m := dynamicpb.NewMessage(md)
	fds := md.Fields()
	p := 0.45
	if depth > 2 {
		p = 0.15
	}
	oneofSet := map[string]bool{}
	for i := 0; i < fds.Len(); i++ {
		fd := fds.Get(i)
		if !g.rng.Chance(p) {
			continue
		}
		if oo := fd.ContainingOneof(); oo != nil {
			if oneofSet[string(oo.Name())] {
				continue
			}
			oneofSet[string(oo.Name())] = true
		}
		if fd.Message() != nil && depth > 3 {
			continue
		}
		switch {
		case fd.IsMap():
			mp := m.Mutable(fd).Map()
			n := g.rng.Range(1, 2)
			for k := 0; k < n; k++ {
				key := g.optScalar(os, fd.MapKey(), depth).MapKey()
				if fd.MapValue().Message() != nil {
					mp.Set(key, protoreflect.ValueOfMessage(g.optMessage(os, fd.MapValue().Message(), depth+1)))
				} else {
					mp.Set(key, g.optScalar(os, fd.MapValue(), depth))
				}
			}
			g.tag("optvalue:map")
		case fd.IsList():
			l := m.Mutable(fd).List()
			n := g.rng.Range(1, 3)
			for k := 0; k < n; k++ {
				l.Append(g.optScalar(os, fd, depth))
			}
			g.tag("optvalue:repeated")
		default:
			m.Set(fd, g.optScalar(os, fd, depth))
		}
	}
	// extensions of the message (extension of an extension)
	if md.ExtensionRanges().Len() > 0 && g.rng.Chance(0.3) {
		os.types.RangeExtensionsByMessage(md.FullName(), func(xt protoreflect.ExtensionType) bool {
			if g.rng.Chance(0.5) {
				m.Set(xt.TypeDescriptor(), g.optValue(os, xt.TypeDescriptor(), depth))
				g.tag("optvalue:ext-of-ext")
			}
			return true
		})
	}
	return m
}
