package gen

import (
	"encoding/json"
	"fmt"
	"os"
	"path/filepath"
	"sort"
	"strings"
	"sync"

	"google.golang.org/protobuf/proto"
	"google.golang.org/protobuf/types/descriptorpb"
)

// R2Entry is one protoc-produced descriptor from protobuf-go (recorded oracle R2).
type R2Entry struct {
	Name   string
	Desc   *descriptorpb.FileDescriptorProto // what protoc produced (source-retention options stripped, no source info)
	Source string                            // "" if the .proto is not in the corpus
}

var (
	r2Once sync.Once
	r2     []R2Entry
	r2Src  map[string]string
	r2Err  error
)

// LoadR2 loads the frozen R2 corpus: protoc descriptors and all sources
// (keyed by import path).
func LoadR2() ([]R2Entry, map[string]string, error) {
	r2Once.Do(func() {
		root := filepath.Join(VerifDir(), "corpus")
		b, err := os.ReadFile(filepath.Join(root, "r2/index.json"))
		if err != nil {
			r2Err = err
			return
		}
		var idx []struct{ Name, Desc, Source string }
		if err := json.Unmarshal(b, &idx); err != nil {
			r2Err = err
			return
		}
		r2Src = map[string]string{}
		srcRoot := filepath.Join(root, "r2/src")
		_ = filepath.Walk(srcRoot, func(p string, info os.FileInfo, err error) error {
			if err != nil || info.IsDir() || !strings.HasSuffix(p, ".proto") {
				return nil
			}
			rel, _ := filepath.Rel(srcRoot, p)
			c, err := os.ReadFile(p)
			if err == nil {
				r2Src[filepath.ToSlash(rel)] = string(c)
			}
			return nil
		})
		for _, e := range idx {
			db, err := os.ReadFile(filepath.Join(root, e.Desc))
			if err != nil {
				r2Err = err
				return
			}
			fd := &descriptorpb.FileDescriptorProto{}
			if err := proto.Unmarshal(db, fd); err != nil {
				r2Err = fmt.Errorf("%s: %w", e.Desc, err)
				return
			}
			ent := R2Entry{Name: e.Name, Desc: fd}
			if e.Source != "" {
				ent.Source = r2Src[e.Name]
			}
			r2 = append(r2, ent)
		}
	})
	return r2, r2Src, r2Err
}

// R1Set is a protoc descriptor set shipped in the repository (recorded oracle R1).
type R1Set struct {
	Name  string
	Files []*descriptorpb.FileDescriptorProto
}

// LoadR1 loads the frozen R1 corpus: descriptor sets and sources keyed by
// path relative to internal/testdata.
func LoadR1() ([]R1Set, map[string]string, error) {
	root := filepath.Join(VerifDir(), "corpus/r1")
	src := map[string]string{}
	var sets []R1Set
	err := filepath.Walk(root, func(p string, info os.FileInfo, err error) error {
		if err != nil || info.IsDir() {
			return err
		}
		rel, _ := filepath.Rel(root, p)
		rel = filepath.ToSlash(rel)
		b, err := os.ReadFile(p)
		if err != nil {
			return err
		}
		switch {
		case strings.HasSuffix(p, ".proto"):
			src[rel] = string(b)
		case strings.HasSuffix(p, ".protoset"):
			fds := &descriptorpb.FileDescriptorSet{}
			if err := proto.Unmarshal(b, fds); err != nil {
				return fmt.Errorf("%s: %w", rel, err)
			}
			sets = append(sets, R1Set{Name: rel, Files: fds.File})
		}
		return nil
	})
	sort.Slice(sets, func(i, j int) bool { return sets[i].Name < sets[j].Name })
	return sets, src, err
}

// R3Case is one protoc-verified verdict (recorded oracle R3).
type R3Case struct {
	Name           string            `json:"name"`
	Input          map[string]string `json:"input"`
	InputOrder     []string          `json:"input_order"`
	ExpectedErr    string            `json:"expected_err"`
	DiffWithProtoc bool              `json:"diff_with_protoc"`
	ProtodescFail  string            `json:"protodesc_fail"`
}

// ProtocAccepts is protoc's recorded verdict for the case.
func (c *R3Case) ProtocAccepts() bool {
	accept := c.ExpectedErr == ""
	if c.DiffWithProtoc {
		accept = !accept
	}
	return accept
}

// LoadR3 loads one of the verdict tables ("linker_validation" or "basic_validation").
func LoadR3(table string) ([]R3Case, error) {
	b, err := os.ReadFile(filepath.Join(VerifDir(), "corpus/r3", table+".json"))
	if err != nil {
		return nil, err
	}
	var cs []R3Case
	return cs, json.Unmarshal(b, &cs)
}
