package gen

import (
	"fmt"
	"math"
	"sort"
	"strconv"
	"strings"

	"google.golang.org/protobuf/proto"
	"google.golang.org/protobuf/reflect/protoregistry"
	"google.golang.org/protobuf/types/descriptorpb"

	"github.com/bufbuild/protocompile/internal/verifmon/vlib"
)

// Config steers the schema generator.
type Config struct {
	MaxFiles      int      // 1..n files
	Syntaxes      []string // subset of proto2, proto3, editions
	CustomOptions bool     // generate an option schema and option values
	Collide       bool     // draw simple names from tiny pools so that scopes shadow each other
	Small         bool     // fewer elements per scope
}

// Model is a set of files described by what a correct compiler must output.
type Model struct {
	Files []*descriptorpb.FileDescriptorProto // dependencies first
	Reg   *protoregistry.Files
	Types *protoregistry.Types
	// Features used, for evidence.
	Tags map[string]int
}

// Names returns the file names of the model.
func (m *Model) Names() []string {
	var ns []string
	for _, f := range m.Files {
		ns = append(ns, f.GetName())
	}
	return ns
}

// File returns the model file with the given name.
func (m *Model) File(name string) *descriptorpb.FileDescriptorProto {
	for _, f := range m.Files {
		if f.GetName() == name {
			return f
		}
	}
	return nil
}

// Sources renders every file of the model; style(i) gives the style of file i (nil = canonical).
func (m *Model) Sources(style func(i int) *Style) (map[string]string, error) {
	out := map[string]string{}
	for i, f := range m.Files {
		var st *Style
		if style != nil {
			st = style(i)
		}
		s, err := Render(f, m.Types, st)
		if err != nil {
			return nil, fmt.Errorf("%s: %w", f.GetName(), err)
		}
		out[f.GetName()] = s
	}
	return out, nil
}

type msgInfo struct {
	fqn      string
	file     int
	d        *descriptorpb.DescriptorProto
	synth    bool // map entry or group body: not a target for ordinary references
	extFree  [][2]int32
	syntax   string
	depth    int
	children []*msgInfo
	enums    []*enumInfo
}

type enumInfo struct {
	fqn    string
	file   int
	d      *descriptorpb.EnumDescriptorProto
	closed bool
}

type fileInfo struct {
	fd           *descriptorpb.FileDescriptorProto
	syntax       string
	visible      map[int]bool
	isOptSchema  bool
	implicitFile bool // editions: file-level field_presence = IMPLICIT
	closedFile   bool // editions: file-level enum_type = CLOSED
}

type gstate struct {
	rng     *vlib.RNG
	cfg     Config
	used    map[string]byte // FQN -> 'p' package, 's' other symbol
	files   []*fileInfo
	msgs    []*msgInfo
	enums   []*enumInfo
	extUsed map[string]map[int32]bool
	tags    map[string]int
	ctr     int
}

var (
	msgPool   = []string{"Foo", "Bar", "Baz", "Msg", "Outer", "Inner", "Node", "Item", "Req", "Resp"}
	fieldPool = []string{"id", "name", "value", "foo", "bar", "baz", "item", "count", "data", "kind", "next", "list", "tags", "b", "c"}
	enumPool  = []string{"Kind", "Color", "State", "Mode", "E"}
	valPool   = []string{"UNKNOWN", "A", "B", "C", "ON", "OFF", "RED", "X"}
	svcPool   = []string{"Svc", "Api", "Service"}
	pkgPool   = []string{"", "a", "a.b", "a.b.c", "b", "x.y", "foo", "foo.bar"}
)

func (g *gstate) tag(t string) { g.tags[t]++ }

func (g *gstate) fresh(scope string, pool []string) string {
	for try := 0; try < 8; try++ {
		n := pool[g.rng.Intn(len(pool))]
		if !g.cfg.Collide && g.rng.Chance(0.5) {
			g.ctr++
			n = fmt.Sprintf("%s%d", n, g.ctr)
		}
		if _, ok := g.used[joinName(scope, n)]; !ok {
			return n
		}
	}
	for {
		g.ctr++
		n := fmt.Sprintf("%s%d", pool[g.rng.Intn(len(pool))], g.ctr)
		if _, ok := g.used[joinName(scope, n)]; !ok {
			return n
		}
	}
}

func (g *gstate) claim(fqn string) { g.used[fqn] = 's' }

// GenModel generates a model. It returns nil if the Go protobuf runtime does
// not accept the expected descriptors (the model is then not a decided case).
func GenModel(rng *vlib.RNG, cfg Config) (*Model, error) {
	if cfg.MaxFiles < 1 {
		cfg.MaxFiles = 1
	}
	if len(cfg.Syntaxes) == 0 {
		cfg.Syntaxes = []string{"proto2", "proto3", "editions"}
	}
	g := &gstate{rng: rng, cfg: cfg, used: map[string]byte{}, extUsed: map[string]map[int32]bool{}, tags: map[string]int{}}
	nfiles := rng.Range(1, cfg.MaxFiles)
	var optSchema *optSchema
	if cfg.CustomOptions {
		var err error
		optSchema, err = g.genOptionSchema()
		if err != nil {
			return nil, err
		}
	}
	for i := 0; i < nfiles; i++ {
		g.genFile(optSchema)
	}
	m := &Model{Tags: g.tags}
	for _, f := range g.files {
		m.Files = append(m.Files, f.fd)
	}
	reg, errs := BuildFilesLenient(m.Files)
	if len(errs) > 0 {
		var ss []string
		for n, e := range errs {
			ss = append(ss, n+": "+e.Error())
		}
		sort.Strings(ss)
		return nil, fmt.Errorf("model refused by protodesc: %s", strings.Join(ss, "; "))
	}
	m.Reg = reg
	m.Types = TypesOf(reg)
	if optSchema != nil {
		// option values were built against the schema's own descriptors;
		// re-encode the files so that they are plain bytes + known fields again.
		for i, f := range m.Files {
			b, err := proto.MarshalOptions{Deterministic: true}.Marshal(f)
			if err != nil {
				return nil, err
			}
			nf := &descriptorpb.FileDescriptorProto{}
			if err := proto.Unmarshal(b, nf); err != nil {
				return nil, err
			}
			m.Files[i] = nf
		}
	}
	return m, nil
}

func (g *gstate) genFile(os *optSchema) {
	idx := len(g.files)
	fi := &fileInfo{visible: map[int]bool{idx: true}}
	fi.syntax = g.cfg.Syntaxes[g.rng.Intn(len(g.cfg.Syntaxes))]
	fd := &descriptorpb.FileDescriptorProto{}
	fi.fd = fd
	name := fmt.Sprintf("f%d.proto", idx)
	if g.rng.Chance(0.3) {
		name = fmt.Sprintf("dir%d/f%d.proto", g.rng.Intn(2), idx)
	}
	fd.Name = proto.String(name)
	switch fi.syntax {
	case "proto3":
		fd.Syntax = proto.String("proto3")
	case "editions":
		fd.Syntax = proto.String("editions")
		fd.Edition = descriptorpb.Edition_EDITION_2023.Enum()
	default:
		// protoc leaves FileDescriptorProto.syntax unset for proto2 files
	}
	g.tag("syntax:" + fi.syntax)
	// package
	for try := 0; try < 10; try++ {
		pkg := pkgPool[g.rng.Intn(len(pkgPool))]
		if !g.cfg.Collide && g.rng.Chance(0.3) {
			pkg = fmt.Sprintf("p%d", idx)
		}
		ok := true
		if pkg != "" {
			parts := strings.Split(pkg, ".")
			for i := range parts {
				if k, used := g.used[strings.Join(parts[:i+1], ".")]; used && k != 'p' {
					ok = false
				}
			}
			if ok {
				for i := range parts {
					g.used[strings.Join(parts[:i+1], ".")] = 'p'
				}
				fd.Package = proto.String(pkg)
			}
		}
		if ok {
			break
		}
	}
	// imports
	if idx > 0 {
		for _, j := range g.rng.Perm(idx) {
			if len(fd.Dependency) >= 3 || !g.rng.Chance(0.6) || g.files[j].isOptSchema {
				continue
			}
			fd.Dependency = append(fd.Dependency, g.files[j].fd.GetName())
			if g.rng.Chance(0.3) {
				fd.PublicDependency = append(fd.PublicDependency, int32(len(fd.Dependency)-1))
				g.tag("import:public")
			}
			for v := range g.pubClosure(j) {
				fi.visible[v] = true
			}
		}
	}
	useOpts := os != nil && g.rng.Chance(0.8)
	if useOpts {
		fd.Dependency = append(fd.Dependency, os.file.GetName())
	}
	if g.rng.Chance(0.15) {
		fd.Dependency = append(fd.Dependency, "google/protobuf/timestamp.proto")
	}
	g.files = append(g.files, fi)

	if fi.syntax == "editions" {
		fs := &descriptorpb.FeatureSet{}
		set := false
		if g.rng.Chance(0.2) {
			fs.FieldPresence = descriptorpb.FeatureSet_IMPLICIT.Enum()
			fi.implicitFile = true
			set = true
		}
		if g.rng.Chance(0.2) {
			fs.EnumType = descriptorpb.FeatureSet_CLOSED.Enum()
			fi.closedFile = true
			set = true
		}
		if g.rng.Chance(0.2) {
			fs.RepeatedFieldEncoding = descriptorpb.FeatureSet_EXPANDED.Enum()
			set = true
		}
		if g.rng.Chance(0.15) {
			fs.MessageEncoding = descriptorpb.FeatureSet_DELIMITED.Enum()
			set = true
		}
		if g.rng.Chance(0.15) {
			fs.Utf8Validation = descriptorpb.FeatureSet_NONE.Enum()
			set = true
		}
		if g.rng.Chance(0.15) {
			fs.JsonFormat = descriptorpb.FeatureSet_LEGACY_BEST_EFFORT.Enum()
			set = true
		}
		if set {
			fd.Options = &descriptorpb.FileOptions{Features: fs}
			g.tag("editions:file-features")
		}
	}
	if g.rng.Chance(0.3) {
		if fd.Options == nil {
			fd.Options = &descriptorpb.FileOptions{}
		}
		switch g.rng.Intn(4) {
		case 0:
			fd.Options.JavaPackage = proto.String("com.example.p" + strconv.Itoa(idx))
		case 1:
			fd.Options.GoPackage = proto.String("example.com/p;p" + strconv.Itoa(idx))
		case 2:
			fd.Options.Deprecated = proto.Bool(true)
		default:
			fd.Options.OptimizeFor = descriptorpb.FileOptions_SPEED.Enum()
			fd.Options.JavaMultipleFiles = proto.Bool(g.rng.Bool())
		}
		g.tag("option:file-standard")
	}

	pkg := fd.GetPackage()
	// pass 1: shells
	nm := g.rng.Range(1, 4)
	if g.cfg.Small {
		nm = g.rng.Range(1, 2)
	}
	var tops []*msgInfo
	for i := 0; i < nm; i++ {
		tops = append(tops, g.shell(idx, pkg, 0, &fd.MessageType))
	}
	ne := g.rng.Range(0, 2)
	var topEnums []*enumInfo
	for i := 0; i < ne; i++ {
		topEnums = append(topEnums, g.genEnum(idx, pkg, &fd.EnumType))
	}
	// pass 2: bodies
	var all []*msgInfo
	var collect func(m *msgInfo)
	collect = func(m *msgInfo) {
		all = append(all, m)
		for _, c := range m.children {
			collect(c)
		}
	}
	for _, t := range tops {
		collect(t)
	}
	for _, m := range all {
		g.fillMessage(fi, m)
	}
	// file-level extensions
	if fi.syntax != "proto3" && g.rng.Chance(0.5) {
		g.genExtensions(fi, pkg, &fd.Extension, &fd.MessageType, g.rng.Range(1, 3))
	}
	// services
	if g.rng.Chance(0.4) {
		g.genService(fi, pkg)
	}
	if useOpts {
		g.applyOptions(fi, os)
	}
	_ = topEnums
}

func (g *gstate) pubClosure(j int) map[int]bool {
	out := map[int]bool{j: true}
	fd := g.files[j].fd
	for _, pi := range fd.PublicDependency {
		dep := fd.Dependency[pi]
		for k, f := range g.files {
			if f.fd.GetName() == dep {
				for v := range g.pubClosure(k) {
					out[v] = true
				}
			}
		}
	}
	return out
}

func (g *gstate) shell(file int, scope string, depth int, list *[]*descriptorpb.DescriptorProto) *msgInfo {
	name := g.fresh(scope, msgPool)
	fqn := joinName(scope, name)
	g.claim(fqn)
	d := &descriptorpb.DescriptorProto{Name: proto.String(name)}
	*list = append(*list, d)
	mi := &msgInfo{fqn: fqn, file: file, d: d, syntax: g.files[file].syntax, depth: depth}
	g.msgs = append(g.msgs, mi)
	if depth < 3 {
		n := 0
		if g.rng.Chance(0.4) {
			n = g.rng.Range(1, 2)
		}
		for i := 0; i < n; i++ {
			mi.children = append(mi.children, g.shell(file, fqn, depth+1, &d.NestedType))
		}
	}
	if g.rng.Chance(0.3) {
		mi.enums = append(mi.enums, g.genEnum(file, fqn, &d.EnumType))
	}
	return mi
}

func (g *gstate) genEnum(file int, scope string, list *[]*descriptorpb.EnumDescriptorProto) *enumInfo {
	fi := g.files[file]
	name := g.fresh(scope, enumPool)
	fqn := joinName(scope, name)
	g.claim(fqn)
	e := &descriptorpb.EnumDescriptorProto{Name: proto.String(name)}
	*list = append(*list, e)
	ei := &enumInfo{fqn: fqn, file: file, d: e}
	switch fi.syntax {
	case "proto2":
		ei.closed = true
	case "editions":
		ei.closed = fi.closedFile
		if g.rng.Chance(0.2) {
			want := descriptorpb.FeatureSet_CLOSED
			if ei.closed {
				want = descriptorpb.FeatureSet_OPEN
			}
			e.Options = &descriptorpb.EnumOptions{Features: &descriptorpb.FeatureSet{EnumType: want.Enum()}}
			ei.closed = !ei.closed
			g.tag("editions:enum-feature")
		}
	}
	n := g.rng.Range(1, 5)
	nums := map[int32]bool{}
	alias := false
	prefix := strings.ToUpper(name)
	for i := 0; i < n; i++ {
		vn := ""
		for {
			vn = prefix + "_" + valPool[g.rng.Intn(len(valPool))]
			if g.rng.Chance(0.3) {
				g.ctr++
				vn += strconv.Itoa(g.ctr)
			}
			if _, ok := g.used[joinName(scope, vn)]; !ok {
				break
			}
		}
		g.claim(joinName(scope, vn))
		var num int32
		switch {
		case i == 0 && !ei.closed:
			num = 0
		case g.rng.Chance(0.1) && len(nums) > 0:
			// alias an existing number
			for k := range nums {
				num = k
				break
			}
			alias = true
		default:
			for {
				switch g.rng.Intn(6) {
				case 0:
					num = -int32(g.rng.Range(1, 100))
				case 1:
					num = int32(g.rng.Range(1000, 2000000000))
				case 2:
					num = math.MinInt32
				case 3:
					num = math.MaxInt32
				default:
					num = int32(g.rng.Range(0, 12))
				}
				if !nums[num] {
					break
				}
			}
		}
		nums[num] = true
		v := &descriptorpb.EnumValueDescriptorProto{Name: proto.String(vn), Number: proto.Int32(num)}
		if g.rng.Chance(0.08) {
			v.Options = &descriptorpb.EnumValueOptions{Deprecated: proto.Bool(true)}
		}
		e.Value = append(e.Value, v)
	}
	if alias {
		if e.Options == nil {
			e.Options = &descriptorpb.EnumOptions{}
		}
		e.Options.AllowAlias = proto.Bool(true)
		g.tag("enum:alias")
	}
	if g.rng.Chance(0.2) {
		// reserved range that avoids every used number
		lo := int32(g.rng.Range(100, 500))
		hi := lo + int32(g.rng.Range(0, 20))
		ok := true
		for k := range nums {
			if k >= lo && k <= hi {
				ok = false
			}
		}
		if ok {
			e.ReservedRange = append(e.ReservedRange, &descriptorpb.EnumDescriptorProto_EnumReservedRange{Start: proto.Int32(lo), End: proto.Int32(hi)})
			g.tag("enum:reserved")
		}
		if g.rng.Bool() {
			e.ReservedName = append(e.ReservedName, prefix+"_RESERVED")
		}
	}
	g.enums = append(g.enums, ei)
	return ei
}

var scalarTypes = []descriptorpb.FieldDescriptorProto_Type{
	descriptorpb.FieldDescriptorProto_TYPE_DOUBLE, descriptorpb.FieldDescriptorProto_TYPE_FLOAT,
	descriptorpb.FieldDescriptorProto_TYPE_INT64, descriptorpb.FieldDescriptorProto_TYPE_UINT64,
	descriptorpb.FieldDescriptorProto_TYPE_INT32, descriptorpb.FieldDescriptorProto_TYPE_FIXED64,
	descriptorpb.FieldDescriptorProto_TYPE_FIXED32, descriptorpb.FieldDescriptorProto_TYPE_BOOL,
	descriptorpb.FieldDescriptorProto_TYPE_STRING, descriptorpb.FieldDescriptorProto_TYPE_BYTES,
	descriptorpb.FieldDescriptorProto_TYPE_UINT32, descriptorpb.FieldDescriptorProto_TYPE_SFIXED32,
	descriptorpb.FieldDescriptorProto_TYPE_SFIXED64, descriptorpb.FieldDescriptorProto_TYPE_SINT32,
	descriptorpb.FieldDescriptorProto_TYPE_SINT64,
}

func packable(t descriptorpb.FieldDescriptorProto_Type) bool {
	switch t {
	case descriptorpb.FieldDescriptorProto_TYPE_STRING, descriptorpb.FieldDescriptorProto_TYPE_BYTES,
		descriptorpb.FieldDescriptorProto_TYPE_MESSAGE, descriptorpb.FieldDescriptorProto_TYPE_GROUP:
		return false
	}
	return true
}

// visibleMsgs / visibleEnums list reference targets visible from file fi.
func (g *gstate) visibleMsgs(fi *fileInfo) []*msgInfo {
	var out []*msgInfo
	for _, m := range g.msgs {
		if fi.visible[m.file] && !m.synth {
			out = append(out, m)
		}
	}
	return out
}

func (g *gstate) visibleEnums(fi *fileInfo, needOpen bool) []*enumInfo {
	var out []*enumInfo
	for _, e := range g.enums {
		if fi.visible[e.file] && (!needOpen || !e.closed) {
			out = append(out, e)
		}
	}
	return out
}

type numAlloc struct {
	used map[int32]bool
	lo   []([2]int32) // forbidden ranges (inclusive)
}

func (a *numAlloc) ok(n int32) bool {
	if n < 1 || n > 536870911 || (n >= 19000 && n <= 19999) || a.used[n] {
		return false
	}
	for _, r := range a.lo {
		if n >= r[0] && n <= r[1] {
			return false
		}
	}
	return true
}

func (g *gstate) pickNum(a *numAlloc) int32 {
	for {
		var n int32
		switch g.rng.Intn(12) {
		case 0:
			n = 536870911
		case 1:
			n = int32(g.rng.Range(18990, 20010))
		case 2:
			n = int32(g.rng.Range(1000, 100000))
		default:
			n = int32(g.rng.Range(1, 40))
		}
		if a.ok(n) {
			a.used[n] = true
			return n
		}
	}
}

func lowerFirstAll(s string) string { return strings.ToLower(s) }

// fillMessage generates the body of a message shell.
func (g *gstate) fillMessage(fi *fileInfo, m *msgInfo) {
	d := m.d
	syn := fi.syntax
	alloc := &numAlloc{used: map[int32]bool{}}
	// extension ranges and reserved ranges first (fields avoid them)
	if syn != "proto3" && g.rng.Chance(0.35) {
		n := g.rng.Range(1, 2)
		base := int32(g.rng.Range(100, 150))
		for i := 0; i < n; i++ {
			lo := base
			hi := lo + int32(g.rng.Range(0, 60))
			base = hi + int32(g.rng.Range(1, 50))
			if i == n-1 && g.rng.Chance(0.2) {
				hi = 536870911
			}
			d.ExtensionRange = append(d.ExtensionRange, &descriptorpb.DescriptorProto_ExtensionRange{Start: proto.Int32(lo), End: proto.Int32(hi + 1)})
			alloc.lo = append(alloc.lo, [2]int32{lo, hi})
			m.extFree = append(m.extFree, [2]int32{lo, hi})
		}
		g.tag("message:extension-range")
	}
	if g.rng.Chance(0.25) {
		lo := int32(g.rng.Range(50, 90))
		hi := lo + int32(g.rng.Range(0, 9))
		d.ReservedRange = append(d.ReservedRange, &descriptorpb.DescriptorProto_ReservedRange{Start: proto.Int32(lo), End: proto.Int32(hi + 1)})
		alloc.lo = append(alloc.lo, [2]int32{lo, hi})
		if g.rng.Bool() {
			d.ReservedName = append(d.ReservedName, "reserved_name", "old")
			g.used[m.fqn+".reserved_name"] = 'r'
			g.used[m.fqn+".old"] = 'r'
		}
		g.tag("message:reserved")
	}
	jsonUsed := map[string]bool{}
	freshField := func() string {
		for {
			n := g.fresh(m.fqn, fieldPool)
			if n == "reserved_name" || n == "old" {
				continue
			}
			j := strings.ToLower(jsonName(n))
			if jsonUsed[j] {
				g.ctr++
				n = fmt.Sprintf("%s%d", n, g.ctr)
				j = strings.ToLower(jsonName(n))
				if _, ok := g.used[joinName(m.fqn, n)]; ok || jsonUsed[j] {
					continue
				}
			}
			jsonUsed[j] = true
			g.claim(joinName(m.fqn, n))
			return n
		}
	}
	nf := g.rng.Range(0, 7)
	if g.cfg.Small {
		nf = g.rng.Range(0, 3)
	}
	lastOwned := -1
	ownedInOneof := false
	insertOwned := func(nd *descriptorpb.DescriptorProto) {
		pos := g.rng.Range(lastOwned+1, len(d.NestedType))
		if ownedInOneof {
			// groups of one oneof are declared inside one block: no plain message can lie between them
			pos = lastOwned + 1
		}
		d.NestedType = append(d.NestedType, nil)
		copy(d.NestedType[pos+1:], d.NestedType[pos:])
		d.NestedType[pos] = nd
		lastOwned = pos
	}
	var inOneof *int32
	oneofLeft := 0
	for i := 0; i < nf; i++ {
		// maybe start a oneof
		if inOneof == nil && g.rng.Chance(0.15) {
			on := g.fresh(m.fqn, []string{"choice", "kind_oneof", "which", "o"})
			g.claim(joinName(m.fqn, on))
			od := &descriptorpb.OneofDescriptorProto{Name: proto.String(on)}
			d.OneofDecl = append(d.OneofDecl, od)
			oi := int32(len(d.OneofDecl) - 1)
			inOneof = &oi
			ownedInOneof = false
			oneofLeft = g.rng.Range(1, 3)
			g.tag("message:oneof")
		}
		f := &descriptorpb.FieldDescriptorProto{}
		f.Number = proto.Int32(g.pickNum(alloc))
		f.Label = descriptorpb.FieldDescriptorProto_LABEL_OPTIONAL.Enum()
		repeated := false
		if inOneof == nil {
			switch {
			case g.rng.Chance(0.25):
				repeated = true
				f.Label = descriptorpb.FieldDescriptorProto_LABEL_REPEATED.Enum()
			case syn == "proto2" && g.rng.Chance(0.08):
				f.Label = descriptorpb.FieldDescriptorProto_LABEL_REQUIRED.Enum()
				g.tag("field:required")
			}
		}
		kind := g.rng.Intn(10)
		switch {
		case kind < 5: // scalar
			f.Type = scalarTypes[g.rng.Intn(len(scalarTypes))].Enum()
			f.Name = proto.String(freshField())
		case kind < 6: // enum
			es := g.visibleEnums(fi, syn == "proto3" || (syn == "editions" && fi.implicitFile))
			if len(es) == 0 {
				f.Type = descriptorpb.FieldDescriptorProto_TYPE_INT32.Enum()
			} else {
				e := es[g.rng.Intn(len(es))]
				f.Type = descriptorpb.FieldDescriptorProto_TYPE_ENUM.Enum()
				f.TypeName = proto.String("." + e.fqn)
				g.tag("field:enum")
			}
			f.Name = proto.String(freshField())
		case kind < 8: // message
			ms := g.visibleMsgs(fi)
			if len(ms) == 0 {
				f.Type = descriptorpb.FieldDescriptorProto_TYPE_BOOL.Enum()
			} else {
				t := ms[g.rng.Intn(len(ms))]
				f.Type = descriptorpb.FieldDescriptorProto_TYPE_MESSAGE.Enum()
				f.TypeName = proto.String("." + t.fqn)
				if f.GetLabel() == descriptorpb.FieldDescriptorProto_LABEL_REQUIRED {
					f.Label = descriptorpb.FieldDescriptorProto_LABEL_OPTIONAL.Enum() // avoid required cycles
				}
				g.tag("field:message")
			}
			f.Name = proto.String(freshField())
		case kind < 9 && inOneof == nil: // map
			fname := freshField()
			entryName := mapEntryName(fname)
			if _, ok := g.used[joinName(m.fqn, entryName)]; ok {
				f.Type = descriptorpb.FieldDescriptorProto_TYPE_STRING.Enum()
				f.Name = proto.String(fname)
				break
			}
			g.claim(joinName(m.fqn, entryName))
			keyTypes := []descriptorpb.FieldDescriptorProto_Type{
				descriptorpb.FieldDescriptorProto_TYPE_INT32, descriptorpb.FieldDescriptorProto_TYPE_INT64, descriptorpb.FieldDescriptorProto_TYPE_UINT32,
				descriptorpb.FieldDescriptorProto_TYPE_UINT64, descriptorpb.FieldDescriptorProto_TYPE_SINT32, descriptorpb.FieldDescriptorProto_TYPE_SINT64,
				descriptorpb.FieldDescriptorProto_TYPE_FIXED32, descriptorpb.FieldDescriptorProto_TYPE_FIXED64, descriptorpb.FieldDescriptorProto_TYPE_SFIXED32,
				descriptorpb.FieldDescriptorProto_TYPE_SFIXED64, descriptorpb.FieldDescriptorProto_TYPE_BOOL, descriptorpb.FieldDescriptorProto_TYPE_STRING,
			}
			kf := &descriptorpb.FieldDescriptorProto{Name: proto.String("key"), Number: proto.Int32(1), Label: descriptorpb.FieldDescriptorProto_LABEL_OPTIONAL.Enum(),
				Type: keyTypes[g.rng.Intn(len(keyTypes))].Enum(), JsonName: proto.String("key")}
			vf := &descriptorpb.FieldDescriptorProto{Name: proto.String("value"), Number: proto.Int32(2), Label: descriptorpb.FieldDescriptorProto_LABEL_OPTIONAL.Enum(), JsonName: proto.String("value")}
			switch g.rng.Intn(4) {
			case 0:
				if ms := g.visibleMsgs(fi); len(ms) > 0 {
					vf.Type = descriptorpb.FieldDescriptorProto_TYPE_MESSAGE.Enum()
					vf.TypeName = proto.String("." + ms[g.rng.Intn(len(ms))].fqn)
					break
				}
				fallthrough
			case 1:
				if es := g.visibleEnums(fi, syn == "proto3" || (syn == "editions" && fi.implicitFile)); len(es) > 0 {
					// closed enums as map values are fine in proto2; for editions keep to open ones if the file is implicit
					e := es[g.rng.Intn(len(es))]
					if e.d.Value[0].GetNumber() == 0 { // enum map values need 0 as first value
						vf.Type = descriptorpb.FieldDescriptorProto_TYPE_ENUM.Enum()
						vf.TypeName = proto.String("." + e.fqn)
						break
					}
				}
				fallthrough
			default:
				vf.Type = scalarTypes[g.rng.Intn(len(scalarTypes))].Enum()
			}
			entry := &descriptorpb.DescriptorProto{Name: proto.String(entryName), Field: []*descriptorpb.FieldDescriptorProto{kf, vf},
				Options: &descriptorpb.MessageOptions{MapEntry: proto.Bool(true)}}
			insertOwned(entry)
			f.Label = descriptorpb.FieldDescriptorProto_LABEL_REPEATED.Enum()
			repeated = true
			f.Type = descriptorpb.FieldDescriptorProto_TYPE_MESSAGE.Enum()
			f.TypeName = proto.String("." + m.fqn + "." + entryName)
			f.Name = proto.String(fname)
			g.tag("field:map")
		case syn == "proto2": // group
			gn := g.fresh(m.fqn, []string{"Grp", "Group", "G", "Data"})
			fname := strings.ToLower(gn)
			if _, ok := g.used[joinName(m.fqn, fname)]; ok || jsonUsed[strings.ToLower(jsonName(fname))] {
				f.Type = descriptorpb.FieldDescriptorProto_TYPE_SINT32.Enum()
				f.Name = proto.String(freshField())
				break
			}
			g.claim(joinName(m.fqn, gn))
			g.claim(joinName(m.fqn, fname))
			jsonUsed[strings.ToLower(jsonName(fname))] = true
			gd := &descriptorpb.DescriptorProto{Name: proto.String(gn)}
			gi := &msgInfo{fqn: joinName(m.fqn, gn), file: m.file, d: gd, synth: true, syntax: syn}
			g.fillGroup(fi, gi)
			insertOwned(gd)
			if inOneof != nil {
				ownedInOneof = true
			}
			f.Type = descriptorpb.FieldDescriptorProto_TYPE_GROUP.Enum()
			f.TypeName = proto.String("." + gi.fqn)
			f.Name = proto.String(fname)
			if f.GetLabel() == descriptorpb.FieldDescriptorProto_LABEL_REQUIRED {
				f.Label = descriptorpb.FieldDescriptorProto_LABEL_OPTIONAL.Enum()
			}
			g.tag("field:group")
		default:
			f.Type = descriptorpb.FieldDescriptorProto_TYPE_STRING.Enum()
			f.Name = proto.String(freshField())
		}
		f.JsonName = proto.String(jsonName(f.GetName()))
		isMap := false
		if _, e := mapEntryOf(m.fqn, f, d.NestedType); e != nil {
			isMap = true
		}
		if inOneof != nil {
			f.OneofIndex = proto.Int32(*inOneof)
		}
		g.fieldExtras(fi, f, repeated, inOneof != nil, isMap, false)
		if f.GetProto3Optional() && g.rng.Chance(0.2) {
			// names with a leading underscore exercise protoc's synthetic-oneof naming rule
			nn := "_" + f.GetName()
			if _, ok := g.used[joinName(m.fqn, nn)]; !ok {
				g.claim(joinName(m.fqn, nn))
				f.Name = proto.String(nn)
				f.JsonName = proto.String(jsonName(nn))
				g.tag("field:leading-underscore")
			}
		}
		d.Field = append(d.Field, f)
		if inOneof != nil {
			oneofLeft--
			if oneofLeft == 0 {
				inOneof = nil
				ownedInOneof = false
			}
		}
	}
	// a oneof that was started by the last iteration always has >= 1 field (fields are added right after).
	// synthetic oneofs for proto3 optional fields, after all real oneofs, in field order
	if syn == "proto3" {
		// protoc's rule (parser.cc GenerateSyntheticOneofs): the names to avoid are the field and oneof
		// names of the message; '_' is prepended unless the name already starts with one; 'X' is
		// prepended until the name is free.
		names := map[string]bool{}
		for _, f := range d.Field {
			names[f.GetName()] = true
		}
		for _, o := range d.OneofDecl {
			names[o.GetName()] = true
		}
		for _, f := range d.Field {
			if f.GetProto3Optional() {
				name := f.GetName()
				if !strings.HasPrefix(name, "_") {
					name = "_" + name
				}
				for names[name] {
					name = "X" + name
				}
				names[name] = true
				g.claim(joinName(m.fqn, name))
				d.OneofDecl = append(d.OneofDecl, &descriptorpb.OneofDescriptorProto{Name: proto.String(name)})
				f.OneofIndex = proto.Int32(int32(len(d.OneofDecl) - 1))
			}
		}
	}
	if g.rng.Chance(0.1) {
		d.Options = &descriptorpb.MessageOptions{Deprecated: proto.Bool(true)}
	}
	// nested extensions
	if syn != "proto3" && g.rng.Chance(0.15) {
		g.genExtensions(fi, m.fqn, &d.Extension, &d.NestedType, g.rng.Range(1, 2))
	}
}

func mapEntryName(field string) string {
	var sb strings.Builder
	up := true
	for _, c := range field {
		if c == '_' {
			up = true
			continue
		}
		if up && c >= 'a' && c <= 'z' {
			c -= 'a' - 'A'
		}
		up = false
		sb.WriteRune(c)
	}
	return sb.String() + "Entry"
}

func (g *gstate) fillGroup(fi *fileInfo, gi *msgInfo) {
	alloc := &numAlloc{used: map[int32]bool{}}
	n := g.rng.Range(0, 3)
	for i := 0; i < n; i++ {
		f := &descriptorpb.FieldDescriptorProto{
			Name:   proto.String(g.fresh(gi.fqn, fieldPool)),
			Number: proto.Int32(g.pickNum(alloc)),
			Label:  descriptorpb.FieldDescriptorProto_LABEL_OPTIONAL.Enum(),
			Type:   scalarTypes[g.rng.Intn(len(scalarTypes))].Enum(),
		}
		dup := false
		for _, o := range gi.d.Field {
			if strings.EqualFold(jsonName(o.GetName()), jsonName(f.GetName())) {
				dup = true
			}
		}
		if dup {
			continue
		}
		g.claim(joinName(gi.fqn, f.GetName()))
		f.JsonName = proto.String(jsonName(f.GetName()))
		gi.d.Field = append(gi.d.Field, f)
	}
}

// fieldExtras adds proto3 optional, defaults, packed and other options, features.
func (g *gstate) fieldExtras(fi *fileInfo, f *descriptorpb.FieldDescriptorProto, repeated, inOneof, isMap, isExt bool) {
	syn := fi.syntax
	t := f.GetType()
	isMsg := t == descriptorpb.FieldDescriptorProto_TYPE_MESSAGE || t == descriptorpb.FieldDescriptorProto_TYPE_GROUP
	if syn == "proto3" && !repeated && !inOneof && !isExt && g.rng.Chance(0.25) {
		f.Proto3Optional = proto.Bool(true)
		g.tag("field:proto3-optional")
	}
	implicit := false
	if syn == "editions" && !repeated && !inOneof && !isExt && !isMsg {
		implicit = fi.implicitFile
		if g.rng.Chance(0.2) {
			fs := &descriptorpb.FeatureSet{}
			switch g.rng.Intn(3) {
			case 0:
				fs.FieldPresence = descriptorpb.FeatureSet_EXPLICIT.Enum()
				implicit = false
			case 1:
				fs.FieldPresence = descriptorpb.FeatureSet_LEGACY_REQUIRED.Enum()
				implicit = false
			default:
				if t == descriptorpb.FieldDescriptorProto_TYPE_ENUM {
					// implicit presence needs an open enum; keep explicit here
					fs.FieldPresence = descriptorpb.FeatureSet_EXPLICIT.Enum()
					implicit = false
				} else {
					fs.FieldPresence = descriptorpb.FeatureSet_IMPLICIT.Enum()
					implicit = true
				}
			}
			f.Options = &descriptorpb.FieldOptions{Features: fs}
			g.tag("editions:field-presence")
		}
	}
	// defaults
	if (syn == "proto2" || (syn == "editions" && !implicit)) && !repeated && !isMsg && g.rng.Chance(0.3) {
		if dv, ok := g.defaultFor(f); ok {
			f.DefaultValue = proto.String(dv)
			g.tag("field:default")
		}
	}
	if repeated && !isMap && packable(t) {
		switch syn {
		case "proto2", "proto3":
			if g.rng.Chance(0.3) {
				if f.Options == nil {
					f.Options = &descriptorpb.FieldOptions{}
				}
				f.Options.Packed = proto.Bool(syn == "proto2" || g.rng.Bool())
				g.tag("field:packed")
			}
		case "editions":
			if g.rng.Chance(0.2) {
				if f.Options == nil {
					f.Options = &descriptorpb.FieldOptions{}
				}
				if f.Options.Features == nil {
					f.Options.Features = &descriptorpb.FeatureSet{}
				}
				f.Options.Features.RepeatedFieldEncoding = []descriptorpb.FeatureSet_RepeatedFieldEncoding{descriptorpb.FeatureSet_PACKED, descriptorpb.FeatureSet_EXPANDED}[g.rng.Intn(2)].Enum()
				g.tag("editions:field-packed")
			}
		}
	}
	if syn == "editions" && t == descriptorpb.FieldDescriptorProto_TYPE_MESSAGE && !isMap && g.rng.Chance(0.2) {
		if f.Options == nil {
			f.Options = &descriptorpb.FieldOptions{}
		}
		if f.Options.Features == nil {
			f.Options.Features = &descriptorpb.FeatureSet{}
		}
		f.Options.Features.MessageEncoding = []descriptorpb.FeatureSet_MessageEncoding{descriptorpb.FeatureSet_DELIMITED, descriptorpb.FeatureSet_LENGTH_PREFIXED}[g.rng.Intn(2)].Enum()
		g.tag("editions:field-delimited")
	}
	if syn == "editions" && t == descriptorpb.FieldDescriptorProto_TYPE_STRING && !isMap && g.rng.Chance(0.15) {
		if f.Options == nil {
			f.Options = &descriptorpb.FieldOptions{}
		}
		if f.Options.Features == nil {
			f.Options.Features = &descriptorpb.FeatureSet{}
		}
		f.Options.Features.Utf8Validation = descriptorpb.FeatureSet_NONE.Enum()
	}
	if g.rng.Chance(0.08) {
		if f.Options == nil {
			f.Options = &descriptorpb.FieldOptions{}
		}
		f.Options.Deprecated = proto.Bool(true)
	}
	if t == descriptorpb.FieldDescriptorProto_TYPE_STRING && !isMap && syn != "editions" && g.rng.Chance(0.05) {
		if f.Options == nil {
			f.Options = &descriptorpb.FieldOptions{}
		}
		f.Options.Ctype = descriptorpb.FieldOptions_CORD.Enum()
	}
	if (t == descriptorpb.FieldDescriptorProto_TYPE_INT64 || t == descriptorpb.FieldDescriptorProto_TYPE_UINT64 || t == descriptorpb.FieldDescriptorProto_TYPE_FIXED64) && !isMap && g.rng.Chance(0.08) {
		if f.Options == nil {
			f.Options = &descriptorpb.FieldOptions{}
		}
		f.Options.Jstype = descriptorpb.FieldOptions_JS_STRING.Enum()
	}
	if !isExt && !isMap && g.rng.Chance(0.1) {
		// a repeated standard option (only consulted when the field is itself used as an option, so any value is legal here)
		if f.Options == nil {
			f.Options = &descriptorpb.FieldOptions{}
		}
		all := []descriptorpb.FieldOptions_OptionTargetType{descriptorpb.FieldOptions_TARGET_TYPE_FILE, descriptorpb.FieldOptions_TARGET_TYPE_FIELD,
			descriptorpb.FieldOptions_TARGET_TYPE_MESSAGE, descriptorpb.FieldOptions_TARGET_TYPE_ENUM, descriptorpb.FieldOptions_TARGET_TYPE_ONEOF, descriptorpb.FieldOptions_TARGET_TYPE_METHOD}
		vlib.Shuffle(g.rng, all)
		f.Options.Targets = append(f.Options.Targets, all[:g.rng.Range(1, 3)]...)
		g.tag("field:targets")
	}
	if !isExt && !isMap && g.rng.Chance(0.06) {
		f.JsonName = proto.String("j_" + f.GetName())
		g.tag("field:json_name")
	}
}

// defaultFor returns a default_value string in protoc's canonical form.
func (g *gstate) defaultFor(f *descriptorpb.FieldDescriptorProto) (string, bool) {
	r := g.rng
	switch f.GetType() {
	case descriptorpb.FieldDescriptorProto_TYPE_BOOL:
		return strconv.FormatBool(r.Bool()), true
	case descriptorpb.FieldDescriptorProto_TYPE_INT32, descriptorpb.FieldDescriptorProto_TYPE_SINT32, descriptorpb.FieldDescriptorProto_TYPE_SFIXED32:
		return strconv.FormatInt(vlib.Pick(r, []int64{0, 1, -1, math.MaxInt32, math.MinInt32, int64(r.Range(-1000, 1000))}), 10), true
	case descriptorpb.FieldDescriptorProto_TYPE_INT64, descriptorpb.FieldDescriptorProto_TYPE_SINT64, descriptorpb.FieldDescriptorProto_TYPE_SFIXED64:
		return strconv.FormatInt(vlib.Pick(r, []int64{0, 1, -1, math.MaxInt64, math.MinInt64, int64(r.Range(-100000, 100000))}), 10), true
	case descriptorpb.FieldDescriptorProto_TYPE_UINT32, descriptorpb.FieldDescriptorProto_TYPE_FIXED32:
		return strconv.FormatUint(vlib.Pick(r, []uint64{0, 1, math.MaxUint32, uint64(r.Range(0, 100000))}), 10), true
	case descriptorpb.FieldDescriptorProto_TYPE_UINT64, descriptorpb.FieldDescriptorProto_TYPE_FIXED64:
		return strconv.FormatUint(vlib.Pick(r, []uint64{0, 1, math.MaxUint64, uint64(r.Range(0, 100000))}), 10), true
	case descriptorpb.FieldDescriptorProto_TYPE_STRING:
		return vlib.Pick(r, []string{"", "hello", "a\"b", "it's", "tab\there", "line\nbreak", "back\\slash", "ünï€😀", "nul\x00byte", "?"}), true
	case descriptorpb.FieldDescriptorProto_TYPE_BYTES:
		// protoc's C-escaped form
		return vlib.Pick(r, []string{"", "abc", `\000\001\377`, `a\"b`, `\'`, `\\`, `\n\r\t`, `\3417`, `x\177y`}), true
	case descriptorpb.FieldDescriptorProto_TYPE_DOUBLE, descriptorpb.FieldDescriptorProto_TYPE_FLOAT:
		// only values whose protoc rendering is certain (small integers / simple decimals / specials)
		return vlib.Pick(r, []string{"0", "1", "-1", "1.5", "-2.25", "inf", "-inf", "nan", "100", "0.5"}), true
	case descriptorpb.FieldDescriptorProto_TYPE_ENUM:
		for _, e := range g.enums {
			if "."+e.fqn == f.GetTypeName() {
				return e.d.Value[r.Intn(len(e.d.Value))].GetName(), true
			}
		}
	}
	return "", false
}

func (g *gstate) genExtensions(fi *fileInfo, scope string, list *[]*descriptorpb.FieldDescriptorProto, msgs *[]*descriptorpb.DescriptorProto, n int) {
	var cands []*msgInfo
	for _, m := range g.visibleMsgs(fi) {
		if len(m.extFree) > 0 {
			cands = append(cands, m)
		}
	}
	if len(cands) == 0 {
		return
	}
	for i := 0; i < n; i++ {
		ext := cands[g.rng.Intn(len(cands))]
		rg := ext.extFree[g.rng.Intn(len(ext.extFree))]
		if g.extUsed[ext.fqn] == nil {
			g.extUsed[ext.fqn] = map[int32]bool{}
		}
		var num int32
		found := false
		for try := 0; try < 10; try++ {
			num = rg[0] + int32(g.rng.Intn(int(min64(int64(rg[1]-rg[0]+1), 50))))
			if !g.extUsed[ext.fqn][num] && !(num >= 19000 && num <= 19999) {
				found = true
				break
			}
		}
		if !found {
			continue
		}
		g.extUsed[ext.fqn][num] = true
		name := g.fresh(scope, []string{"ext", "x_field", "extra", "opt_ext"})
		g.claim(joinName(scope, name))
		f := &descriptorpb.FieldDescriptorProto{Name: proto.String(name), Number: proto.Int32(num), Extendee: proto.String("." + ext.fqn),
			Label: descriptorpb.FieldDescriptorProto_LABEL_OPTIONAL.Enum()}
		repeated := g.rng.Chance(0.3)
		if repeated {
			f.Label = descriptorpb.FieldDescriptorProto_LABEL_REPEATED.Enum()
		}
		grp := false
		if fi.syntax == "proto2" && msgs != nil && g.rng.Chance(0.2) {
			// a group declared inside the extend block: the field and its message type come from one declaration
			gn := g.fresh(scope, []string{"XGrp", "ExtGroup", "XG", "GrpExt"})
			fname := strings.ToLower(gn)
			if _, taken := g.used[joinName(scope, fname)]; !taken {
				g.claim(joinName(scope, gn))
				g.claim(joinName(scope, fname))
				delete(g.used, joinName(scope, name))
				name = fname
				f.Name = proto.String(name)
				gd := &descriptorpb.DescriptorProto{Name: proto.String(gn)}
				fidx := 0
				for k, x := range g.files {
					if x == fi {
						fidx = k
					}
				}
				gi := &msgInfo{fqn: joinName(scope, gn), file: fidx, d: gd, synth: true, syntax: fi.syntax}
				g.fillGroup(fi, gi)
				*msgs = append(*msgs, gd)
				f.Type = descriptorpb.FieldDescriptorProto_TYPE_GROUP.Enum()
				f.TypeName = proto.String("." + gi.fqn)
				grp = true
				g.tag("extension:group")
			}
		}
		switch k := g.rng.Intn(4); {
		case grp:
		case k == 0:
			if ms := g.visibleMsgs(fi); len(ms) > 0 {
				f.Type = descriptorpb.FieldDescriptorProto_TYPE_MESSAGE.Enum()
				f.TypeName = proto.String("." + ms[g.rng.Intn(len(ms))].fqn)
				break
			}
			fallthrough
		case k == 1:
			if es := g.visibleEnums(fi, false); len(es) > 0 {
				f.Type = descriptorpb.FieldDescriptorProto_TYPE_ENUM.Enum()
				f.TypeName = proto.String("." + es[g.rng.Intn(len(es))].fqn)
				break
			}
			fallthrough
		default:
			f.Type = scalarTypes[g.rng.Intn(len(scalarTypes))].Enum()
		}
		f.JsonName = proto.String(jsonName(name))
		g.fieldExtras(fi, f, repeated, false, false, true)
		*list = append(*list, f)
		g.tag("extension")
	}
}

func min64(a, b int64) int64 {
	if a < b {
		return a
	}
	return b
}

func (g *gstate) genService(fi *fileInfo, pkg string) {
	ms := g.visibleMsgs(fi)
	if len(ms) == 0 {
		return
	}
	name := g.fresh(pkg, svcPool)
	g.claim(joinName(pkg, name))
	s := &descriptorpb.ServiceDescriptorProto{Name: proto.String(name)}
	n := g.rng.Range(0, 3)
	for i := 0; i < n; i++ {
		mn := g.fresh(joinName(pkg, name), []string{"Get", "Put", "List", "Do"})
		g.claim(joinName(joinName(pkg, name), mn))
		m := &descriptorpb.MethodDescriptorProto{Name: proto.String(mn),
			InputType:  proto.String("." + ms[g.rng.Intn(len(ms))].fqn),
			OutputType: proto.String("." + ms[g.rng.Intn(len(ms))].fqn)}
		if g.rng.Chance(0.3) {
			m.ClientStreaming = proto.Bool(true)
		}
		if g.rng.Chance(0.3) {
			m.ServerStreaming = proto.Bool(true)
		}
		if g.rng.Chance(0.2) {
			m.Options = &descriptorpb.MethodOptions{IdempotencyLevel: descriptorpb.MethodOptions_IDEMPOTENT.Enum()}
		} else if g.rng.Chance(0.1) {
			m.Options = &descriptorpb.MethodOptions{Deprecated: proto.Bool(true)}
		}
		s.Method = append(s.Method, m)
	}
	if g.rng.Chance(0.1) {
		s.Options = &descriptorpb.ServiceOptions{Deprecated: proto.Bool(true)}
	}
	fi.fd.Service = append(fi.fd.Service, s)
	g.tag("service")
}
