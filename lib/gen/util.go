package gen

import (
	"strings"
	"sync"

	"google.golang.org/protobuf/proto"
	"google.golang.org/protobuf/reflect/protodesc"
	"google.golang.org/protobuf/types/descriptorpb"

	"github.com/bufbuild/protocompile/internal/verifmon/vlib"
	"github.com/bufbuild/protocompile/linker"
)

// DetBytes is the deterministic encoding of a message (nil-safe).
func DetBytes(m proto.Message) []byte {
	if m == nil {
		return nil
	}
	b, _ := proto.MarshalOptions{Deterministic: true}.Marshal(m)
	return b
}

// AllProtos collects the descriptor protos of every linker.Result reachable
// from files (requested files and their imports), by path.
func AllProtos(files linker.Files) map[string]*descriptorpb.FileDescriptorProto {
	out := map[string]*descriptorpb.FileDescriptorProto{}
	for n, r := range AllResults(files) {
		out[n] = r.FileDescriptorProto()
	}
	return out
}

// SrcKey is a content identity of a source set; "" when it has no message
// (a trivial case for the distinct non-trivial count).
func SrcKey(src map[string]string) string {
	var sb strings.Builder
	for _, n := range SortedNames(src) {
		sb.WriteString(n)
		sb.WriteByte(0)
		sb.WriteString(src[n])
		sb.WriteByte(0)
	}
	if !strings.Contains(sb.String(), "message") {
		return ""
	}
	return sb.String()
}

// ClassifyErr abstracts an error summary to its message shape: the position,
// quoted names and numbers are removed, so that it is stable across seeds.
func ClassifyErr(s string) string {
	if i := strings.Index(s, " && "); i >= 0 {
		s = s[:i]
	}
	parts := strings.SplitN(s, ": ", 2)
	if len(parts) == 2 && strings.Contains(parts[0], ".proto") {
		s = parts[1]
	}
	var sb strings.Builder
	inq := false
	for _, c := range s {
		switch {
		case c == '"':
			inq = !inq
			if !inq {
				sb.WriteString(`"…"`)
			}
		case inq:
		case c >= '0' && c <= '9':
			if !strings.HasSuffix(sb.String(), "#") {
				sb.WriteByte('#')
			}
		default:
			sb.WriteRune(c)
		}
	}
	out := sb.String()
	if len(out) > 160 {
		out = out[:160] + "…"
	}
	return out
}

// StdConfig is the standard mix of generator configurations used by the
// monitors: case index i selects file count, syntax mix, custom options,
// colliding names and size.
func StdConfig(rng *vlib.RNG, i int) Config {
	cfg := Config{MaxFiles: 1 + i%5, CustomOptions: i%3 != 0, Collide: i%4 == 1, Small: i%2 == 0}
	switch i % 7 {
	case 0:
		cfg.Syntaxes = []string{"proto2"}
	case 1:
		cfg.Syntaxes = []string{"proto3"}
	case 2:
		cfg.Syntaxes = []string{"editions"}
	}
	return cfg
}

// CompareNormalized compares two descriptor protos after dropping source info
// and decoding options on both sides against res. It returns "" if equal,
// else a description of the first difference ("got != want").
func CompareNormalized(got, want *descriptorpb.FileDescriptorProto, res TypeResolver) (string, error) {
	a, err := Normalize(got, res)
	if err != nil {
		return "", err
	}
	b, err := Normalize(want, res)
	if err != nil {
		return "", err
	}
	if proto.Equal(a, b) {
		return "", nil
	}
	d := Diff(a, b)
	if d == "" {
		d = "proto.Equal is false but no structural difference was found (unknown-field order?)"
	}
	return d, nil
}

var (
	descSrcOnce sync.Once
	descSrc     string
	descSrcErr  error
)

// DescriptorProtoSource returns source text for google/protobuf/descriptor.proto, rendered from the
// descriptor linked into the Go runtime (used to exercise the compiler's "overridden descriptor.proto" path).
func DescriptorProtoSource() (string, error) {
	descSrcOnce.Do(func() {
		fd := protodesc.ToFileDescriptorProto(descriptorpb.File_google_protobuf_descriptor_proto)
		descSrc, descSrcErr = Render(fd, nil, nil)
	})
	return descSrc, descSrcErr
}

// WellKnownImports are files every compilation can import from the standard imports (supplied as built descriptors).
var WellKnownImports = []string{
	"google/protobuf/compiler/plugin.proto", "google/protobuf/api.proto", "google/protobuf/type.proto", "google/protobuf/any.proto",
	"google/protobuf/timestamp.proto", "google/protobuf/descriptor.proto", "google/protobuf/struct.proto", "google/protobuf/wrappers.proto",
}

// InjectImports adds import statements for the given files right after the syntax/edition line of src
// (imports the text already has are skipped). The imports are unused, which is a warning, not an error.
func InjectImports(src string, files []string) string {
	lines := strings.Split(src, "\n")
	at := -1
	for i, l := range lines {
		t := strings.TrimSpace(l)
		if strings.HasPrefix(t, "syntax") || strings.HasPrefix(t, "edition") {
			at = i
			break
		}
	}
	var add []string
	for _, f := range files {
		if !strings.Contains(src, `"`+f+`"`) && !strings.Contains(src, `'`+f+`'`) {
			add = append(add, `import "`+f+`";`)
		}
	}
	if len(add) == 0 {
		return src
	}
	out := append([]string{}, lines[:at+1]...)
	out = append(out, add...)
	out = append(out, lines[at+1:]...)
	return strings.Join(out, "\n")
}
