#!/usr/bin/env python3
"""Rewrites the commit hashes of status=fixed entries of known_findings.json from /repo's history (matched by commit subject)."""
import json, subprocess
p = '/verif/known_findings.json'
kf = json.load(open(p))
log = [l.split(' ', 1) for l in subprocess.run(['git', '-C', '/repo', 'log', '--format=%h %s'], capture_output=True, text=True).stdout.splitlines()]
out = []
for f in kf['findings']:
    if f.get('status') != 'fixed':
        out.append(f)
        continue
    subj = f.get('subject')
    if not subj:
        # first run: recover the subject from the old hash if it still exists
        r = subprocess.run(['git', '-C', '/repo', 'log', '-1', '--format=%s', f['commit']], capture_output=True, text=True)
        subj = r.stdout.strip()
    hit = [h for h, s in log if s == subj]
    if not hit:
        print('DROPPED (commit no longer in history):', f['id'], subj)
        continue
    f['subject'] = subj
    f['commit'] = hit[0]
    f['id'] = 'FX-%s-%s' % (f['property'], hit[0])
    f['line'] = 'fixed: property=%s %s %s' % (f['property'], hit[0], f['what'])
    out.append(f)
kf['findings'] = out
json.dump(kf, open(p, 'w'), indent=1, ensure_ascii=False)
print(len([f for f in out if f['status'] == 'fixed']), 'fixed entries,', len([f for f in out if f['status'] == 'known']), 'known entries')
