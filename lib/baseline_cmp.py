#!/usr/bin/env python3
"""Compare a `go test -json` log with the stable-pass list of /root/.vp/BASELINE.json."""
import json, sys
base = json.load(open('/root/.vp/BASELINE.json'))
stable = set(base['stable_pass'])
res = {}
for line in open(sys.argv[1], errors='replace'):
    try:
        e = json.loads(line)
    except Exception:
        continue
    if e.get('Action') in ('pass', 'fail', 'skip') and e.get('Test'):
        res['%s::%s' % (e['Package'], e['Test'])] = e['Action']
missing = [t for t in stable if res.get(t) != 'pass']
print('stable_pass=%d passing_now=%d not_passing=%d' % (len(stable), len(stable) - len(missing), len(missing)))
for t in sorted(missing)[:40]:
    print('  NOT PASS:', t, res.get(t))
sys.exit(1 if missing else 0)
