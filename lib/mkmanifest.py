#!/usr/bin/env python3
"""Regenerates /verif/MANIFEST.json from lib/props.py and lib/claims.py (keeps it schema-valid)."""
import json
import os
import subprocess
import sys

HERE = os.path.dirname(os.path.abspath(__file__))
VERIF = os.path.dirname(HERE)
sys.path.insert(0, HERE)
import props as PR  # noqa: E402
import claims as CL  # noqa: E402

ALL = [json.loads(l)["id"] for l in open(os.path.join(VERIF, "properties.jsonl"))]


def main():
    checks = []
    na = []
    for pid in ALL:
        if pid in PR.PROPS and pid in CL.CLAIMS:
            c = CL.CLAIMS[pid]
            cfg = PR.PROPS[pid]
            checks.append({
                "property_id": pid,
                "quick_cmd": "./check %s --tier quick" % pid,
                "thorough_cmd": "./check %s --tier thorough" % pid,
                "evidence_file": "/verif/evidence/%s.json" % pid,
                "replay_cmd_template": "./check %s --replay {path}" % pid,
                "engine": cfg["group"],
                "level_claimed": {"category": cfg["level"], "text": c["text"], "design_ref": "DESIGN.md §4 " + pid},
                "level_note": c["note"],
                "technique": c["technique"],
            })
        else:
            na.append({"property_id": pid, "reason": CL.NOT_CLAIMED.get(pid, "check not built yet in this round (planned in DESIGN.md §4); nothing is claimed for it")})
    hooks = []
    try:
        out = subprocess.run(["git", "-C", "/repo", "log", "--format=%H %s"], capture_output=True, text=True).stdout
        for line in out.splitlines():
            h, _, subj = line.partition(" ")
            if subj.startswith("verif-hooks:"):
                hooks.append(h)
    except Exception:  # noqa: BLE001
        pass
    engines = []
    for g, d in PR.GROUPS.items():
        served = [p for p in ALL if p in PR.PROPS and PR.PROPS[p]["group"] == g and p in CL.CLAIMS]
        if served:
            engines.append({"name": g, "path": "/verif/monitors/" + g, "serves_properties": served,
                            "kind_free_text": "Go monitor package compiled into the /repo module with `go test -c -overlay` (virtual dir %s), run as child processes by /verif/check" % d["dir"]})
    m = {
        "version": 1,
        "setup_cmd": "./check --setup",
        "hooks": {
            "guard": "verif",
            "enable": "go test -c -tags verif -overlay=<monitors> -modfile=<copy of /repo/go.mod + porcupine> (done by /verif/check on every run, from /repo's working tree)",
            "baseline_off_cmd": "mkdir -p /verif/.build && cd /repo && PATH=/root/go/pkg/mod/golang.org/toolchain@v0.0.1-go1.25.6.linux-amd64/bin:$PATH GOTOOLCHAIN=local GOFLAGS= GOPROXY=off GOSUMDB=off go test -json -vet=off -count=1 -timeout 25m ./... > /verif/.build/baseline.json; python3 /verif/lib/baseline_cmp.py /verif/.build/baseline.json",
            "source_commits": hooks,
            "add_only": True,
        },
        "engines": engines,
        "checks": checks,
        "not_applicable": na,
        "notes": "Technique family: runtime monitoring and sanitizers. Every check rebuilds its monitor from /repo's working tree with -tags verif, runs the real code under generated/hostile/stress workloads and decides with an oracle over the observed executions; see DESIGN.md. Exit 2 + an INCONCLUSIVE line means the monitor could not decide (never folded into pass or violation). known_findings.json lists genuine defects recorded rather than repaired.",
    }
    json.dump(m, open(os.path.join(VERIF, "MANIFEST.json"), "w"), indent=1)
    print("MANIFEST.json: %d checks, %d not claimed" % (len(checks), len(na)))


if __name__ == "__main__":
    main()
