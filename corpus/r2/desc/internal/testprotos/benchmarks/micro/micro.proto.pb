
0internal/testprotos/benchmarks/micro/micro.protogoproto.proto.benchmarks.microt"Ÿ
SixteenRequired
f1 (Rf1
f2 (Rf2
f3 (Rf3
f4 (Rf4
f5 (Rf5
f6 (Rf6
f7 (Rf7
f8 (Rf8
f9	 (Rf9
f10
 (Rf10
f11 (Rf11
f12 (Rf12
f13 (Rf13
f14 (Rf14
f15 (Rf15
f16 (Rf16BAZ?google.golang.org/protobuf/internal/testprotos/benchmarks/micro