
+internal/testprotos/required/required.protogoproto.proto.testrequired"
Int32
v (BªRv"
Int64
v (BªRv"
Uint32
v (BªRv"
Uint64
v (BªRv"
Sint32
v (BªRv"
Sint64
v (BªRv"
Fixed32
v (BªRv"
Fixed64
v (BªRv"
Float
v (BªRv"
Double
v (BªRv"
Bool
v (BªRv"
String
v (	BªRv"
Bytes
v (BªRv"J
Message:
v (2%.goproto.proto.testrequired.Message.MBªRv
M"f
GroupF
group (2'.goproto.proto.testrequired.Group.GroupBª(Rgroup
Group
v (RvB9Z7google.golang.org/protobuf/internal/testprotos/requiredbeditionspè