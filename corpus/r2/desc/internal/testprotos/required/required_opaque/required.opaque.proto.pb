
Binternal/testprotos/required/required_opaque/required.opaque.proto!opaque.goproto.proto.testrequired!google/protobuf/go_features.proto"
Int32
v (BªRv"
Int64
v (BªRv"
Uint32
v (BªRv"
Uint64
v (BªRv"
Sint32
v (BªRv"
Sint64
v (BªRv"
Fixed32
v (BªRv"
Fixed64
v (BªRv"
Float
v (BªRv"
Double
v (BªRv"
Bool
v (BªRv"
String
v (	BªRv"
Bytes
v (BªRv"Q
MessageA
v (2,.opaque.goproto.proto.testrequired.Message.MBªRv
M"m
GroupM
group (2..opaque.goproto.proto.testrequired.Group.GroupBª(Rgroup
Group
v (RvBQZGgoogle.golang.org/protobuf/internal/testprotos/required/required_opaque’Ò>beditionspè