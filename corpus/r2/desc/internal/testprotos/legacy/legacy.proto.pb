
'internal/testprotos/legacy/legacy.protogoogle.golang.org>internal/testprotos/legacy/proto2_20160225_2fc053c5/test.proto>internal/testprotos/legacy/proto3_20160225_2fc053c5/test.proto>internal/testprotos/legacy/proto2_20160519_a4ab9ec5/test.proto>internal/testprotos/legacy/proto3_20160519_a4ab9ec5/test.proto>internal/testprotos/legacy/proto2_20180125_92554152/test.proto>internal/testprotos/legacy/proto3_20180125_92554152/test.proto>internal/testprotos/legacy/proto2_20180430_b4deda09/test.proto>internal/testprotos/legacy/proto3_20180430_b4deda09/test.proto>internal/testprotos/legacy/proto2_20180814_aa810b61/test.proto>internal/testprotos/legacy/proto3_20180814_aa810b61/test.proto>internal/testprotos/legacy/proto2_20190205_c823c79e/test.proto>internal/testprotos/legacy/proto3_20190205_c823c79e/test.proto"Þ
Legacy:
f1 (2*.google.golang.org.proto2_20160225.MessageRf1:
f2 (2*.google.golang.org.proto3_20160225.MessageRf2:
f3 (2*.google.golang.org.proto2_20160519.MessageRf3:
f4 (2*.google.golang.org.proto3_20160519.MessageRf4:
f5 (2*.google.golang.org.proto2_20180125.MessageRf5:
f6 (2*.google.golang.org.proto3_20180125.MessageRf6:
f7 (2*.google.golang.org.proto2_20180430.MessageRf7:
f8 (2*.google.golang.org.proto3_20180430.MessageRf8:
f9	 (2*.google.golang.org.proto2_20180814.MessageRf9<
f10
 (2*.google.golang.org.proto3_20180814.MessageRf10<
f11 (2*.google.golang.org.proto2_20190205.MessageRf11<
f12 (2*.google.golang.org.proto3_20190205.MessageRf12B7Z5google.golang.org/protobuf/internal/testprotos/legacybproto3