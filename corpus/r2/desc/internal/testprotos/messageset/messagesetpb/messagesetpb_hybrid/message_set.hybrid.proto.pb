
Xinternal/testprotos/messageset/messagesetpb/messagesetpb_hybrid/message_set.hybrid.protohybrid.goproto.proto.messageset!google/protobuf/go_features.proto"

MessageSet*ÿÿÿÿ:"c
MessageSetContainerL
message_set (2+.hybrid.goproto.proto.messageset.MessageSetR
messageSetBdZZgoogle.golang.org/protobuf/internal/testprotos/messageset/messagesetpb/messagesetpb_hybrid’Ò>beditionspè