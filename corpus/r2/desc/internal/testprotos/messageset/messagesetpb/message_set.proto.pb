
=internal/testprotos/messageset/messagesetpb/message_set.protogoproto.proto.messageset"

MessageSet*ÿÿÿÿ:"\
MessageSetContainerE
message_set (2$.goproto.proto.messageset.MessageSetR
messageSetBHZFgoogle.golang.org/protobuf/internal/testprotos/messageset/messagesetpbbeditionspè