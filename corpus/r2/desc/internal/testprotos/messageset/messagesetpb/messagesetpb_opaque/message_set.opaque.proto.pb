
Xinternal/testprotos/messageset/messagesetpb/messagesetpb_opaque/message_set.opaque.protoopaque.goproto.proto.messageset!google/protobuf/go_features.proto"

MessageSet*ÿÿÿÿ:"c
MessageSetContainerL
message_set (2+.opaque.goproto.proto.messageset.MessageSetR
messageSetBdZZgoogle.golang.org/protobuf/internal/testprotos/messageset/messagesetpb/messagesetpb_opaque’Ò>beditionspè