
Pinternal/testprotos/messageset/msetextpb/msetextpb_opaque/msetextpb.opaque.protoopaque.goproto.proto.messagesetXinternal/testprotos/messageset/messagesetpb/messagesetpb_opaque/message_set.opaque.proto!google/protobuf/go_features.proto"Ç
Ext1
ext1_field1 (R
ext1Field1
ext1_field2 (R
ext1Field22}
message_set_ext1+.opaque.goproto.proto.messageset.MessageSetè (2%.opaque.goproto.proto.messageset.Ext1RmessageSetExt1"¦
Ext2
ext2_field1 (R
ext2Field12}
message_set_ext2+.opaque.goproto.proto.messageset.MessageSeté (2%.opaque.goproto.proto.messageset.Ext2RmessageSetExt2"Ò
ExtRequired.
required_field1 (BªRrequiredField12’
message_set_extrequired+.opaque.goproto.proto.messageset.MessageSetê (2,.opaque.goproto.proto.messageset.ExtRequiredRmessageSetExtrequired"¥
ExtLargeNumber2’
message_set_extlarge+.opaque.goproto.proto.messageset.MessageSet€€€€ (2/.opaque.goproto.proto.messageset.ExtLargeNumberRmessageSetExtlargeB^ZTgoogle.golang.org/protobuf/internal/testprotos/messageset/msetextpb/msetextpb_opaque’Ò>beditionspè