
8internal/testprotos/messageset/msetextpb/msetextpb.protogoproto.proto.messageset=internal/testprotos/messageset/messagesetpb/message_set.proto"¹
Ext1
ext1_field1 (R
ext1Field1
ext1_field2 (R
ext1Field22o
message_set_ext1$.goproto.proto.messageset.MessageSetè (2.goproto.proto.messageset.Ext1RmessageSetExt1"˜
Ext2
ext2_field1 (R
ext2Field12o
message_set_ext2$.goproto.proto.messageset.MessageSeté (2.goproto.proto.messageset.Ext2RmessageSetExt2"Ä
ExtRequired.
required_field1 (BªRrequiredField12„
message_set_extrequired$.goproto.proto.messageset.MessageSetê (2%.goproto.proto.messageset.ExtRequiredRmessageSetExtrequired"—
ExtLargeNumber2„
message_set_extlarge$.goproto.proto.messageset.MessageSet€€€€ (2(.goproto.proto.messageset.ExtLargeNumberRmessageSetExtlargeBEZCgoogle.golang.org/protobuf/internal/testprotos/messageset/msetextpbbeditionspè