
Pinternal/testprotos/messageset/msetextpb/msetextpb_hybrid/msetextpb.hybrid.protohybrid.goproto.proto.messagesetXinternal/testprotos/messageset/messagesetpb/messagesetpb_hybrid/message_set.hybrid.proto!google/protobuf/go_features.proto"Ç
Ext1
ext1_field1 (R
ext1Field1
ext1_field2 (R
ext1Field22}
message_set_ext1+.hybrid.goproto.proto.messageset.MessageSetè (2%.hybrid.goproto.proto.messageset.Ext1RmessageSetExt1"¦
Ext2
ext2_field1 (R
ext2Field12}
message_set_ext2+.hybrid.goproto.proto.messageset.MessageSeté (2%.hybrid.goproto.proto.messageset.Ext2RmessageSetExt2"Ò
ExtRequired.
required_field1 (BªRrequiredField12’
message_set_extrequired+.hybrid.goproto.proto.messageset.MessageSetê (2,.hybrid.goproto.proto.messageset.ExtRequiredRmessageSetExtrequired"¥
ExtLargeNumber2’
message_set_extlarge+.hybrid.goproto.proto.messageset.MessageSet€€€€ (2/.hybrid.goproto.proto.messageset.ExtLargeNumberRmessageSetExtlargeB^ZTgoogle.golang.org/protobuf/internal/testprotos/messageset/msetextpb/msetextpb_hybrid’Ò>beditionspè