
/internal/testprotos/annotation/annotation.protogo_annotation google/protobuf/descriptor.proto:J
track_field_use.google.protobuf.MessageOptionsÖ‹È (RtrackFieldUseB;Z9google.golang.org/protobuf/internal/testprotos/annotation