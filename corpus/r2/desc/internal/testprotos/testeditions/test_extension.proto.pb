
5internal/testprotos/testeditions/test_extension.protogoproto.proto.testeditions+internal/testprotos/testeditions/test.proto"ç
TestAllExtensionsn
NestedMessage
a (RaO
corecursive (2-.goproto.proto.testeditions.TestAllExtensionsRcorecursive*ÄÄÄÄ"ø
OptionalGroup
a (Ra*
same_field_number (RsameFieldNumbert
optional_nested_messageË (2;.goproto.proto.testeditions.TestAllExtensions.NestedMessageRoptionalNestedMessage"ì
RepeatedGroup
a/ (Rat
optional_nested_messageÈ (2;.goproto.proto.testeditions.TestAllExtensions.NestedMessageRoptionalNestedMessage"!
TestFeatureResolution*ÄÄÄÄ"ê
RepeatedFieldEncoding2o
message_expanded_extension1.goproto.proto.testeditions.TestFeatureResolution (RmessageExpandedExtension2Ö
"message_packed_extension_overriden1.goproto.proto.testeditions.TestFeatureResolution (B™RmessagePackedExtensionOverriden:T
optional_int32-.goproto.proto.testeditions.TestAllExtensions (RoptionalInt32:T
optional_int64-.goproto.proto.testeditions.TestAllExtensions (RoptionalInt64:V
optional_uint32-.goproto.proto.testeditions.TestAllExtensions (RoptionalUint32:V
optional_uint64-.goproto.proto.testeditions.TestAllExtensions (RoptionalUint64:V
optional_sint32-.goproto.proto.testeditions.TestAllExtensions (RoptionalSint32:V
optional_sint64-.goproto.proto.testeditions.TestAllExtensions (RoptionalSint64:X
optional_fixed32-.goproto.proto.testeditions.TestAllExtensions (RoptionalFixed32:X
optional_fixed64-.goproto.proto.testeditions.TestAllExtensions (RoptionalFixed64:Z
optional_sfixed32-.goproto.proto.testeditions.TestAllExtensions	 (RoptionalSfixed32:Z
optional_sfixed64-.goproto.proto.testeditions.TestAllExtensions
 (RoptionalSfixed64:T
optional_float-.goproto.proto.testeditions.TestAllExtensions (RoptionalFloat:V
optional_double-.goproto.proto.testeditions.TestAllExtensions (RoptionalDouble:R
optional_bool-.goproto.proto.testeditions.TestAllExtensions (RoptionalBool:V
optional_string-.goproto.proto.testeditions.TestAllExtensions (	RoptionalString:T
optional_bytes-.goproto.proto.testeditions.TestAllExtensions (RoptionalBytes:Ö
optionalgroup-.goproto.proto.testeditions.TestAllExtensions (2).goproto.proto.testeditions.OptionalGroupB™(Roptionalgroup:¢
optional_nested_message-.goproto.proto.testeditions.TestAllExtensions (2;.goproto.proto.testeditions.TestAllExtensions.NestedMessageRoptionalNestedMessage:î
optional_nested_enum-.goproto.proto.testeditions.TestAllExtensions (23.goproto.proto.testeditions.TestAllTypes.NestedEnumRoptionalNestedEnum:T
repeated_int32-.goproto.proto.testeditions.TestAllExtensions (RrepeatedInt32:T
repeated_int64-.goproto.proto.testeditions.TestAllExtensions  (RrepeatedInt64:V
repeated_uint32-.goproto.proto.testeditions.TestAllExtensions! (RrepeatedUint32:V
repeated_uint64-.goproto.proto.testeditions.TestAllExtensions" (RrepeatedUint64:V
repeated_sint32-.goproto.proto.testeditions.TestAllExtensions# (RrepeatedSint32:V
repeated_sint64-.goproto.proto.testeditions.TestAllExtensions$ (RrepeatedSint64:X
repeated_fixed32-.goproto.proto.testeditions.TestAllExtensions% (RrepeatedFixed32:X
repeated_fixed64-.goproto.proto.testeditions.TestAllExtensions& (RrepeatedFixed64:Z
repeated_sfixed32-.goproto.proto.testeditions.TestAllExtensions' (RrepeatedSfixed32:Z
repeated_sfixed64-.goproto.proto.testeditions.TestAllExtensions( (RrepeatedSfixed64:T
repeated_float-.goproto.proto.testeditions.TestAllExtensions) (RrepeatedFloat:V
repeated_double-.goproto.proto.testeditions.TestAllExtensions* (RrepeatedDouble:R
repeated_bool-.goproto.proto.testeditions.TestAllExtensions+ (RrepeatedBool:V
repeated_string-.goproto.proto.testeditions.TestAllExtensions, (	RrepeatedString:T
repeated_bytes-.goproto.proto.testeditions.TestAllExtensions- (RrepeatedBytes:Ö
repeatedgroup-.goproto.proto.testeditions.TestAllExtensions. (2).goproto.proto.testeditions.RepeatedGroupB™(Rrepeatedgroup:¢
repeated_nested_message-.goproto.proto.testeditions.TestAllExtensions0 (2;.goproto.proto.testeditions.TestAllExtensions.NestedMessageRrepeatedNestedMessage:î
repeated_nested_enum-.goproto.proto.testeditions.TestAllExtensions3 (23.goproto.proto.testeditions.TestAllTypes.NestedEnumRrepeatedNestedEnum:V
default_int32-.goproto.proto.testeditions.TestAllExtensionsQ (:81RdefaultInt32:V
default_int64-.goproto.proto.testeditions.TestAllExtensionsR (:82RdefaultInt64:X
default_uint32-.goproto.proto.testeditions.TestAllExtensionsS (:83RdefaultUint32:X
default_uint64-.goproto.proto.testeditions.TestAllExtensionsT (:84RdefaultUint64:Y
default_sint32-.goproto.proto.testeditions.TestAllExtensionsU (:-85RdefaultSint32:X
default_sint64-.goproto.proto.testeditions.TestAllExtensionsV (:86RdefaultSint64:Z
default_fixed32-.goproto.proto.testeditions.TestAllExtensionsW (:87RdefaultFixed32:Z
default_fixed64-.goproto.proto.testeditions.TestAllExtensionsX (:88RdefaultFixed64:\
default_sfixed32-.goproto.proto.testeditions.TestAllExtensionsY (:89RdefaultSfixed32:]
default_sfixed64-.goproto.proto.testeditions.TestAllExtensionsP (:-90RdefaultSfixed64:X
default_float-.goproto.proto.testeditions.TestAllExtensions[ (:91.5RdefaultFloat:[
default_double-.goproto.proto.testeditions.TestAllExtensions\ (:92000RdefaultDouble:V
default_bool-.goproto.proto.testeditions.TestAllExtensions] (:trueRdefaultBool:[
default_string-.goproto.proto.testeditions.TestAllExtensions^ (	:helloRdefaultString:Y
default_bytes-.goproto.proto.testeditions.TestAllExtensions_ (:worldRdefaultBytes:p
single-.goproto.proto.testeditions.TestAllExtensionsË (2(.goproto.proto.testeditions.TestRequiredRsingle:n
multi-.goproto.proto.testeditions.TestAllExtensionsÈ (2(.goproto.proto.testeditions.TestRequiredRmulti:m
global_expanded_extension1.goproto.proto.testeditions.TestFeatureResolution (RglobalExpandedExtension:É
!global_packed_extension_overriden1.goproto.proto.testeditions.TestFeatureResolution (B™RglobalPackedExtensionOverridenBDZ;google.golang.org/protobuf/internal/testprotos/testeditionsí beditionspË