
Qinternal/testprotos/testeditions/testeditions_opaque/test_extension2.opaque.proto!opaque.goproto.proto.testeditionsPinternal/testprotos/testeditions/testeditions_opaque/test_extension.opaque.proto!google/protobuf/go_features.proto"Ì
OtherRepeatedFieldEncoding2¤
/other_file_message_expanded_extension_overriden8.opaque.goproto.proto.testeditions.TestFeatureResolution (BªR*otherFileMessageExpandedExtensionOverriden2†
#other_file_message_packed_extension8.opaque.goproto.proto.testeditions.TestFeatureResolution	 (RotherFileMessagePackedExtension:¢
.other_file_global_expanded_extension_overriden8.opaque.goproto.proto.testeditions.TestFeatureResolution (BªR)otherFileGlobalExpandedExtensionOverriden:„
"other_file_global_packed_extension8.opaque.goproto.proto.testeditions.TestFeatureResolution (RotherFileGlobalPackedExtensionB[ZOgoogle.golang.org/protobuf/internal/testprotos/testeditions/testeditions_opaque’Ò>beditionspè