
Qinternal/testprotos/testeditions/testeditions_hybrid/test_extension2.hybrid.proto!hybrid.goproto.proto.testeditionsPinternal/testprotos/testeditions/testeditions_hybrid/test_extension.hybrid.proto!google/protobuf/go_features.proto"Ì
OtherRepeatedFieldEncoding2¤
/other_file_message_expanded_extension_overriden8.hybrid.goproto.proto.testeditions.TestFeatureResolution (BªR*otherFileMessageExpandedExtensionOverriden2†
#other_file_message_packed_extension8.hybrid.goproto.proto.testeditions.TestFeatureResolution	 (RotherFileMessagePackedExtension:¢
.other_file_global_expanded_extension_overriden8.hybrid.goproto.proto.testeditions.TestFeatureResolution (BªR)otherFileGlobalExpandedExtensionOverriden:„
"other_file_global_packed_extension8.hybrid.goproto.proto.testeditions.TestFeatureResolution (RotherFileGlobalPackedExtensionB[ZOgoogle.golang.org/protobuf/internal/testprotos/testeditions/testeditions_hybrid’Ò>beditionspè