
Pinternal/testprotos/testeditions/testeditions_hybrid/test_extension.hybrid.proto!hybrid.goproto.proto.testeditionsFinternal/testprotos/testeditions/testeditions_hybrid/test.hybrid.proto!google/protobuf/go_features.proto"”
TestAllExtensionsu
NestedMessage
a (RaV
corecursive (24.hybrid.goproto.proto.testeditions.TestAllExtensionsRcorecursive*€€€€"Æ
OptionalGroup
a (Ra*
same_field_number (RsameFieldNumber{
optional_nested_messageè (2B.hybrid.goproto.proto.testeditions.TestAllExtensions.NestedMessageRoptionalNestedMessage"š
RepeatedGroup
a/ (Ra{
optional_nested_messageé (2B.hybrid.goproto.proto.testeditions.TestAllExtensions.NestedMessageRoptionalNestedMessage"!
TestFeatureResolution*€€€€"ž
RepeatedFieldEncoding2v
message_expanded_extension8.hybrid.goproto.proto.testeditions.TestFeatureResolution (RmessageExpandedExtension2Œ
"message_packed_extension_overriden8.hybrid.goproto.proto.testeditions.TestFeatureResolution (BªRmessagePackedExtensionOverriden:[
optional_int324.hybrid.goproto.proto.testeditions.TestAllExtensions (RoptionalInt32:[
optional_int644.hybrid.goproto.proto.testeditions.TestAllExtensions (RoptionalInt64:]
optional_uint324.hybrid.goproto.proto.testeditions.TestAllExtensions (RoptionalUint32:]
optional_uint644.hybrid.goproto.proto.testeditions.TestAllExtensions (RoptionalUint64:]
optional_sint324.hybrid.goproto.proto.testeditions.TestAllExtensions (RoptionalSint32:]
optional_sint644.hybrid.goproto.proto.testeditions.TestAllExtensions (RoptionalSint64:_
optional_fixed324.hybrid.goproto.proto.testeditions.TestAllExtensions (RoptionalFixed32:_
optional_fixed644.hybrid.goproto.proto.testeditions.TestAllExtensions (RoptionalFixed64:a
optional_sfixed324.hybrid.goproto.proto.testeditions.TestAllExtensions	 (RoptionalSfixed32:a
optional_sfixed644.hybrid.goproto.proto.testeditions.TestAllExtensions
 (RoptionalSfixed64:[
optional_float4.hybrid.goproto.proto.testeditions.TestAllExtensions (RoptionalFloat:]
optional_double4.hybrid.goproto.proto.testeditions.TestAllExtensions (RoptionalDouble:Y
optional_bool4.hybrid.goproto.proto.testeditions.TestAllExtensions (RoptionalBool:]
optional_string4.hybrid.goproto.proto.testeditions.TestAllExtensions (	RoptionalString:[
optional_bytes4.hybrid.goproto.proto.testeditions.TestAllExtensions (RoptionalBytes:“
optionalgroup4.hybrid.goproto.proto.testeditions.TestAllExtensions (20.hybrid.goproto.proto.testeditions.OptionalGroupBª(Roptionalgroup:°
optional_nested_message4.hybrid.goproto.proto.testeditions.TestAllExtensions (2B.hybrid.goproto.proto.testeditions.TestAllExtensions.NestedMessageRoptionalNestedMessage:¢
optional_nested_enum4.hybrid.goproto.proto.testeditions.TestAllExtensions (2:.hybrid.goproto.proto.testeditions.TestAllTypes.NestedEnumRoptionalNestedEnum:[
repeated_int324.hybrid.goproto.proto.testeditions.TestAllExtensions (RrepeatedInt32:[
repeated_int644.hybrid.goproto.proto.testeditions.TestAllExtensions  (RrepeatedInt64:]
repeated_uint324.hybrid.goproto.proto.testeditions.TestAllExtensions! (RrepeatedUint32:]
repeated_uint644.hybrid.goproto.proto.testeditions.TestAllExtensions" (RrepeatedUint64:]
repeated_sint324.hybrid.goproto.proto.testeditions.TestAllExtensions# (RrepeatedSint32:]
repeated_sint644.hybrid.goproto.proto.testeditions.TestAllExtensions$ (RrepeatedSint64:_
repeated_fixed324.hybrid.goproto.proto.testeditions.TestAllExtensions% (RrepeatedFixed32:_
repeated_fixed644.hybrid.goproto.proto.testeditions.TestAllExtensions& (RrepeatedFixed64:a
repeated_sfixed324.hybrid.goproto.proto.testeditions.TestAllExtensions' (RrepeatedSfixed32:a
repeated_sfixed644.hybrid.goproto.proto.testeditions.TestAllExtensions( (RrepeatedSfixed64:[
repeated_float4.hybrid.goproto.proto.testeditions.TestAllExtensions) (RrepeatedFloat:]
repeated_double4.hybrid.goproto.proto.testeditions.TestAllExtensions* (RrepeatedDouble:Y
repeated_bool4.hybrid.goproto.proto.testeditions.TestAllExtensions+ (RrepeatedBool:]
repeated_string4.hybrid.goproto.proto.testeditions.TestAllExtensions, (	RrepeatedString:[
repeated_bytes4.hybrid.goproto.proto.testeditions.TestAllExtensions- (RrepeatedBytes:“
repeatedgroup4.hybrid.goproto.proto.testeditions.TestAllExtensions. (20.hybrid.goproto.proto.testeditions.RepeatedGroupBª(Rrepeatedgroup:°
repeated_nested_message4.hybrid.goproto.proto.testeditions.TestAllExtensions0 (2B.hybrid.goproto.proto.testeditions.TestAllExtensions.NestedMessageRrepeatedNestedMessage:¢
repeated_nested_enum4.hybrid.goproto.proto.testeditions.TestAllExtensions3 (2:.hybrid.goproto.proto.testeditions.TestAllTypes.NestedEnumRrepeatedNestedEnum:]
default_int324.hybrid.goproto.proto.testeditions.TestAllExtensionsQ (:81RdefaultInt32:]
default_int644.hybrid.goproto.proto.testeditions.TestAllExtensionsR (:82RdefaultInt64:_
default_uint324.hybrid.goproto.proto.testeditions.TestAllExtensionsS (:83RdefaultUint32:_
default_uint644.hybrid.goproto.proto.testeditions.TestAllExtensionsT (:84RdefaultUint64:`
default_sint324.hybrid.goproto.proto.testeditions.TestAllExtensionsU (:-85RdefaultSint32:_
default_sint644.hybrid.goproto.proto.testeditions.TestAllExtensionsV (:86RdefaultSint64:a
default_fixed324.hybrid.goproto.proto.testeditions.TestAllExtensionsW (:87RdefaultFixed32:a
default_fixed644.hybrid.goproto.proto.testeditions.TestAllExtensionsX (:88RdefaultFixed64:c
default_sfixed324.hybrid.goproto.proto.testeditions.TestAllExtensionsY (:89RdefaultSfixed32:d
default_sfixed644.hybrid.goproto.proto.testeditions.TestAllExtensionsP (:-90RdefaultSfixed64:_
default_float4.hybrid.goproto.proto.testeditions.TestAllExtensions[ (:91.5RdefaultFloat:b
default_double4.hybrid.goproto.proto.testeditions.TestAllExtensions\ (:92000RdefaultDouble:]
default_bool4.hybrid.goproto.proto.testeditions.TestAllExtensions] (:trueRdefaultBool:b
default_string4.hybrid.goproto.proto.testeditions.TestAllExtensions^ (	:helloRdefaultString:`
default_bytes4.hybrid.goproto.proto.testeditions.TestAllExtensions_ (:worldRdefaultBytes:~
single4.hybrid.goproto.proto.testeditions.TestAllExtensionsè (2/.hybrid.goproto.proto.testeditions.TestRequiredRsingle:|
multi4.hybrid.goproto.proto.testeditions.TestAllExtensionsé (2/.hybrid.goproto.proto.testeditions.TestRequiredRmulti:t
global_expanded_extension8.hybrid.goproto.proto.testeditions.TestFeatureResolution (RglobalExpandedExtension:Š
!global_packed_extension_overriden8.hybrid.goproto.proto.testeditions.TestFeatureResolution (BªRglobalPackedExtensionOverridenB]ZOgoogle.golang.org/protobuf/internal/testprotos/testeditions/testeditions_hybrid’	Ò> beditionspè