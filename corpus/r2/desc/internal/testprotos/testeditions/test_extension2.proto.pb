
6internal/testprotos/testeditions/test_extension2.protogoproto.proto.testeditions5internal/testprotos/testeditions/test_extension.proto"Ω
OtherRepeatedFieldEncoding2ù
/other_file_message_expanded_extension_overriden1.goproto.proto.testeditions.TestFeatureResolution (B™R*otherFileMessageExpandedExtensionOverriden2
#other_file_message_packed_extension1.goproto.proto.testeditions.TestFeatureResolution	 (RotherFileMessagePackedExtension:õ
.other_file_global_expanded_extension_overriden1.goproto.proto.testeditions.TestFeatureResolution (B™R)otherFileGlobalExpandedExtensionOverriden:}
"other_file_global_packed_extension1.goproto.proto.testeditions.TestFeatureResolution (RotherFileGlobalPackedExtensionBBZ;google.golang.org/protobuf/internal/testprotos/testeditionsíbeditionspË