
8internal/testprotos/lazy/lazy_normalized_wire_test.protolazy_normalized_wire_test"g
FSub
b (Rb
c (RcC

grandchild (2.lazy_normalized_wire_test.FSubB(R
grandchild"K
FTop
a (Ra5
child (2.lazy_normalized_wire_test.FSubRchildB5Z3google.golang.org/protobuf/internal/testprotos/lazybeditionspè