
Binternal/testprotos/lazy/lazy_extension_normalized_wire_test.proto#lazy_extension_normalized_wire_test"c
Sub
c (RcH

grandchild (2(.lazy_extension_normalized_wire_test.SubR
grandchild*"S
Top
a (Ra>
child (2(.lazy_extension_normalized_wire_test.SubRchild"„
Ext
	some_flag (RsomeFlag2`
b(.lazy_extension_normalized_wire_test.Sub (2(.lazy_extension_normalized_wire_test.ExtRbB5Z3google.golang.org/protobuf/internal/testprotos/lazybeditionspè