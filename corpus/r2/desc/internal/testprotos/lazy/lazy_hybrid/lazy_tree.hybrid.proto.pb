
;internal/testprotos/lazy/lazy_hybrid/lazy_tree.hybrid.protohybrid.lazy_tree!google/protobuf/go_features.proto"¢
Node2
nestedc (2.hybrid.lazy_tree.NodeB(Rnested
int32 (Rint32
int64 (Rint64
uint32 (Ruint32
uint64 (Ruint64
sint32 (Rsint32
sint64 (Rsint64
fixed32 (Rfixed32
fixed64 (Rfixed64
sfixed32	 (Rsfixed32
sfixed64
 (Rsfixed64
float (Rfloat
double (Rdouble
bool (Rbool
string (	Rstring
bytes (RbytesBIZ?google.golang.org/protobuf/internal/testprotos/lazy/lazy_hybrid’Ò>beditionspè