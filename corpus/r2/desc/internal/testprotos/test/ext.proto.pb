
"internal/testprotos/test/ext.protogoproto.proto.test#internal/testprotos/test/test.proto:^
foreign_int32_extension%.goproto.proto.test.TestAllExtensionsÐ (RforeignInt32ExtensionB5Z3google.golang.org/protobuf/internal/testprotos/test