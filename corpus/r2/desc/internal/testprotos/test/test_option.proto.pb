
*internal/testprotos/test/test_option.protogoproto.proto.test")
OptionImportMessage
name (	RnameBbZ?google.golang.org/protobuf/internal/testprotos/test/test_option’Ò>ªÑùÖ
no package optionbeditionspéz-internal/testprotos/test/test_nopackage.protoz!google/protobuf/go_features.proto