
-internal/testprotos/test/test_nopackage.protogoproto.proto.test google/protobuf/descriptor.proto"%
NoPackageOption
name (	Rname:p
no_package_option.google.protobuf.FileOptions•šï: (2#.goproto.proto.test.NoPackageOptionRnoPackageOptionbeditionspé