
*internal/testprotos/test/test_public.protogoproto.proto.test"
PublicImportMessageB5Z3google.golang.org/protobuf/internal/testprotos/test