
'internal/testprotos/registry/test.proto
testprotos"
Message1*
€€€€"

Message2"

Message3"û
Message4

bool_field (R	boolField2O
message_field.testprotos.Message1 (2.testprotos.Message2RmessageField2F

enum_field.testprotos.Message1 (2.testprotos.Enum1R	enumField27
string_field.testprotos.Message1 (	RstringField*
Enum1
ONE*
Enum2
UNO*
Enum3
YI:7
string_field.testprotos.Message1 (	RstringField:F

enum_field.testprotos.Message1 (2.testprotos.Enum1R	enumField:O
message_field.testprotos.Message1 (2.testprotos.Message2RmessageFieldB9Z7google.golang.org/protobuf/internal/testprotos/registry