
#internal/testprotos/fuzz/fuzz.protogoproto.proto.fuzz#internal/testprotos/test/test.proto$internal/testprotos/test3/test.proto"¯
FuzzF
test_all_types (2 .goproto.proto.test.TestAllTypesRtestAllTypesU
test_all_extensions (2%.goproto.proto.test.TestAllExtensionsRtestAllExtensionsE
test_required (2 .goproto.proto.test.TestRequiredRtestRequired[
test_required_foreign (2'.goproto.proto.test.TestRequiredForeignRtestRequiredForeignh
test_required_group_fields (2+.goproto.proto.test.TestRequiredGroupFieldsRtestRequiredGroupFieldsO
test_packed_types (2#.goproto.proto.test.TestPackedTypesRtestPackedTypes^
test_packed_extensions (2(.goproto.proto.test.TestPackedExtensionsRtestPackedExtensionsI
test_all_types3 (2!.goproto.proto.test3.TestAllTypesRtestAllTypes3B5Z3google.golang.org/protobuf/internal/testprotos/fuzz