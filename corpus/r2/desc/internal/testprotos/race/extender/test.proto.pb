
,internal/testprotos/race/extender/test.protogoproto.proto.test+internal/testprotos/race/message/test.proto" 
OtherMessage
i32 (Ri32:+
s.goproto.proto.test.MyMessage (	RsB>Z<google.golang.org/protobuf/internal/testprotos/race/extenderbeditionspè