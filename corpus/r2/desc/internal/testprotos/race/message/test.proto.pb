
+internal/testprotos/race/message/test.protogoproto.proto.test"#
	MyMessage
i32 (Ri32*B=Z;google.golang.org/protobuf/internal/testprotos/race/messagebeditionspè