
/internal/testprotos/fieldtrack/fieldtrack.protogoproto.proto.test/internal/testprotos/annotation/annotation.proto#internal/testprotos/test/test.proto"Ò#
TestFieldTrack%
optional_int32 (RoptionalInt32%
optional_int64 (RoptionalInt64'
optional_uint32 (RoptionalUint32'
optional_uint64 (RoptionalUint64'
optional_sint32 (RoptionalSint32'
optional_sint64 (RoptionalSint64)
optional_fixed32 (RoptionalFixed32)
optional_fixed64 (RoptionalFixed64+
optional_sfixed32	 (RoptionalSfixed32+
optional_sfixed64
 (RoptionalSfixed64%
optional_float (RoptionalFloat'
optional_double (RoptionalDouble#
optional_bool (RoptionalBool'
optional_string (	RoptionalString%
optional_bytes (RoptionalBytesP
optional_enum (2+.goproto.proto.test.TestAllTypes.NestedEnumRoptionalEnumY
optional_message (2..goproto.proto.test.TestAllTypes.NestedMessageRoptionalMessage%
repeated_int32 (RrepeatedInt32%
repeated_int64 (RrepeatedInt64'
repeated_uint32 (RrepeatedUint32'
repeated_uint64 (RrepeatedUint64'
repeated_sint32 (RrepeatedSint32'
repeated_sint64 (RrepeatedSint64)
repeated_fixed32 (RrepeatedFixed32)
repeated_fixed64 (RrepeatedFixed64+
repeated_sfixed32 (RrepeatedSfixed32+
repeated_sfixed64 (RrepeatedSfixed64%
repeated_float (RrepeatedFloat'
repeated_double  (RrepeatedDouble#
repeated_bool! (RrepeatedBool'
repeated_string" (	RrepeatedString%
repeated_bytes# (RrepeatedBytesP
repeated_enum$ (2+.goproto.proto.test.TestAllTypes.NestedEnumRrepeatedEnumY
repeated_message% (2..goproto.proto.test.TestAllTypes.NestedMessageRrepeatedMessage`
map_string_int32) (26.goproto.proto.test.TestFieldTrack.MapStringInt32EntryRmapStringInt32`
map_string_int64* (26.goproto.proto.test.TestFieldTrack.MapStringInt64EntryRmapStringInt64c
map_string_uint32+ (27.goproto.proto.test.TestFieldTrack.MapStringUint32EntryRmapStringUint32c
map_string_uint64, (27.goproto.proto.test.TestFieldTrack.MapStringUint64EntryRmapStringUint64c
map_string_sint32- (27.goproto.proto.test.TestFieldTrack.MapStringSint32EntryRmapStringSint32c
map_string_sint64. (27.goproto.proto.test.TestFieldTrack.MapStringSint64EntryRmapStringSint64f
map_string_fixed32/ (28.goproto.proto.test.TestFieldTrack.MapStringFixed32EntryRmapStringFixed32f
map_string_fixed640 (28.goproto.proto.test.TestFieldTrack.MapStringFixed64EntryRmapStringFixed64i
map_string_sfixed321 (29.goproto.proto.test.TestFieldTrack.MapStringSfixed32EntryRmapStringSfixed32i
map_string_sfixed642 (29.goproto.proto.test.TestFieldTrack.MapStringSfixed64EntryRmapStringSfixed64`
map_string_float3 (26.goproto.proto.test.TestFieldTrack.MapStringFloatEntryRmapStringFloatc
map_string_double4 (27.goproto.proto.test.TestFieldTrack.MapStringDoubleEntryRmapStringDouble]
map_string_bool5 (25.goproto.proto.test.TestFieldTrack.MapStringBoolEntryRmapStringBoolc
map_string_string6 (27.goproto.proto.test.TestFieldTrack.MapStringStringEntryRmapStringString`
map_string_bytes7 (26.goproto.proto.test.TestFieldTrack.MapStringBytesEntryRmapStringBytes]
map_string_enum8 (25.goproto.proto.test.TestFieldTrack.MapStringEnumEntryRmapStringEnumf
map_string_message9 (28.goproto.proto.test.TestFieldTrack.MapStringMessageEntryRmapStringMessageA
MapStringInt32Entry
key (	Rkey
value (Rvalue:8A
MapStringInt64Entry
key (	Rkey
value (Rvalue:8B
MapStringUint32Entry
key (	Rkey
value (Rvalue:8B
MapStringUint64Entry
key (	Rkey
value (Rvalue:8B
MapStringSint32Entry
key (	Rkey
value (Rvalue:8B
MapStringSint64Entry
key (	Rkey
value (Rvalue:8C
MapStringFixed32Entry
key (	Rkey
value (Rvalue:8C
MapStringFixed64Entry
key (	Rkey
value (Rvalue:8D
MapStringSfixed32Entry
key (	Rkey
value (Rvalue:8D
MapStringSfixed64Entry
key (	Rkey
value (Rvalue:8A
MapStringFloatEntry
key (	Rkey
value (Rvalue:8B
MapStringDoubleEntry
key (	Rkey
value (Rvalue:8@
MapStringBoolEntry
key (	Rkey
value (Rvalue:8B
MapStringStringEntry
key (	Rkey
value (	Rvalue:8A
MapStringBytesEntry
key (	Rkey
value (Rvalue:8m
MapStringEnumEntry
key (	RkeyA
value (2+.goproto.proto.test.TestAllTypes.NestedEnumRvalue:8s
MapStringMessageEntry
key (	RkeyD
value (2..goproto.proto.test.TestAllTypes.NestedMessageRvalue:8:¨àÍŽB;Z9google.golang.org/protobuf/internal/testprotos/fieldtrack