
.internal/testprotos/test3/test_extension.protogoproto.proto.test3 google/protobuf/descriptor.proto$internal/testprotos/test3/test.proto:N
optional_int32_ext.google.protobuf.MessageOptionsé (RoptionalInt32Ext:N
optional_int64_ext.google.protobuf.MessageOptionsê (RoptionalInt64Ext:P
optional_uint32_ext.google.protobuf.MessageOptionsë (RoptionalUint32Ext:P
optional_uint64_ext.google.protobuf.MessageOptionsì (RoptionalUint64Ext:P
optional_sint32_ext.google.protobuf.MessageOptionsí (RoptionalSint32Ext:P
optional_sint64_ext.google.protobuf.MessageOptionsî (RoptionalSint64Ext:R
optional_fixed32_ext.google.protobuf.MessageOptionsï (RoptionalFixed32Ext:R
optional_fixed64_ext.google.protobuf.MessageOptionsð (RoptionalFixed64Ext:T
optional_sfixed32_ext.google.protobuf.MessageOptionsñ (RoptionalSfixed32Ext:T
optional_sfixed64_ext.google.protobuf.MessageOptionsò (RoptionalSfixed64Ext:N
optional_float_ext.google.protobuf.MessageOptionsó (RoptionalFloatExt:P
optional_double_ext.google.protobuf.MessageOptionsô (RoptionalDoubleExt:L
optional_bool_ext.google.protobuf.MessageOptionsõ (RoptionalBoolExt:P
optional_string_ext.google.protobuf.MessageOptionsö (	RoptionalStringExt:N
optional_bytes_ext.google.protobuf.MessageOptions÷ (RoptionalBytesExt:†
optional_foreign_message_ext.google.protobuf.MessageOptionsø (2#.goproto.proto.test3.ForeignMessageRoptionalForeignMessageExt:}
optional_foreign_enum_ext.google.protobuf.MessageOptionsù (2 .goproto.proto.test3.ForeignEnumRoptionalForeignEnumExt:b
optional_optional_int32_ext.google.protobuf.MessageOptionsÑ (RoptionalOptionalInt32Extˆ:b
optional_optional_int64_ext.google.protobuf.MessageOptionsÒ (RoptionalOptionalInt64Extˆ:d
optional_optional_uint32_ext.google.protobuf.MessageOptionsÓ (RoptionalOptionalUint32Extˆ:d
optional_optional_uint64_ext.google.protobuf.MessageOptionsÔ (RoptionalOptionalUint64Extˆ:d
optional_optional_sint32_ext.google.protobuf.MessageOptionsÕ (RoptionalOptionalSint32Extˆ:d
optional_optional_sint64_ext.google.protobuf.MessageOptionsÖ (RoptionalOptionalSint64Extˆ:f
optional_optional_fixed32_ext.google.protobuf.MessageOptions× (RoptionalOptionalFixed32Extˆ:f
optional_optional_fixed64_ext.google.protobuf.MessageOptionsØ (RoptionalOptionalFixed64Extˆ:h
optional_optional_sfixed32_ext.google.protobuf.MessageOptionsÙ (RoptionalOptionalSfixed32Extˆ:h
optional_optional_sfixed64_ext.google.protobuf.MessageOptionsÚ (RoptionalOptionalSfixed64Extˆ:b
optional_optional_float_ext.google.protobuf.MessageOptionsÛ (RoptionalOptionalFloatExtˆ:d
optional_optional_double_ext.google.protobuf.MessageOptionsÜ (RoptionalOptionalDoubleExtˆ:`
optional_optional_bool_ext.google.protobuf.MessageOptionsÝ (RoptionalOptionalBoolExtˆ:d
optional_optional_string_ext.google.protobuf.MessageOptionsÞ (	RoptionalOptionalStringExtˆ:b
optional_optional_bytes_ext.google.protobuf.MessageOptionsß (RoptionalOptionalBytesExtˆ:š
%optional_optional_foreign_message_ext.google.protobuf.MessageOptionsà (2#.goproto.proto.test3.ForeignMessageR!optionalOptionalForeignMessageExtˆ:‘
"optional_optional_foreign_enum_ext.google.protobuf.MessageOptionsá (2 .goproto.proto.test3.ForeignEnumRoptionalOptionalForeignEnumExtˆ:N
repeated_int32_ext.google.protobuf.MessageOptions¹ (RrepeatedInt32Ext:N
repeated_int64_ext.google.protobuf.MessageOptionsº (RrepeatedInt64Ext:P
repeated_uint32_ext.google.protobuf.MessageOptions» (RrepeatedUint32Ext:P
repeated_uint64_ext.google.protobuf.MessageOptions¼ (RrepeatedUint64Ext:P
repeated_sint32_ext.google.protobuf.MessageOptions½ (RrepeatedSint32Ext:P
repeated_sint64_ext.google.protobuf.MessageOptions¾ (RrepeatedSint64Ext:R
repeated_fixed32_ext.google.protobuf.MessageOptions¿ (RrepeatedFixed32Ext:R
repeated_fixed64_ext.google.protobuf.MessageOptionsÀ (RrepeatedFixed64Ext:T
repeated_sfixed32_ext.google.protobuf.MessageOptionsÁ (RrepeatedSfixed32Ext:T
repeated_sfixed64_ext.google.protobuf.MessageOptionsÂ (RrepeatedSfixed64Ext:N
repeated_float_ext.google.protobuf.MessageOptionsÃ (RrepeatedFloatExt:P
repeated_double_ext.google.protobuf.MessageOptionsÄ (RrepeatedDoubleExt:L
repeated_bool_ext.google.protobuf.MessageOptionsÅ (RrepeatedBoolExt:P
repeated_string_ext.google.protobuf.MessageOptionsÆ (	RrepeatedStringExt:N
repeated_bytes_ext.google.protobuf.MessageOptionsÇ (RrepeatedBytesExt:†
repeated_foreign_message_ext.google.protobuf.MessageOptionsÈ (2#.goproto.proto.test3.ForeignMessageRrepeatedForeignMessageExt:}
repeated_foreign_enum_ext.google.protobuf.MessageOptionsÉ (2 .goproto.proto.test3.ForeignEnumRrepeatedForeignEnumExtB6Z4google.golang.org/protobuf/internal/testprotos/test3bproto3