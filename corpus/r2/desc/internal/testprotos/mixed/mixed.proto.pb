
%internal/testprotos/mixed/mixed.protogoproto.proto.test!google/protobuf/go_features.proto"Ì
Open,
open (2.goproto.proto.test.OpenRopen2
hybrid (2.goproto.proto.test.HybridRhybrid2
opaque (2.goproto.proto.test.OpaqueRopaque%
optional_int32 (RoptionalInt32:bÒ>"Î
Hybrid,
open (2.goproto.proto.test.OpenRopen2
hybrid (2.goproto.proto.test.HybridRhybrid2
opaque (2.goproto.proto.test.OpaqueRopaque%
optional_int32 (RoptionalInt32:bÒ>"Î
Opaque,
open (2.goproto.proto.test.OpenRopen2
hybrid (2.goproto.proto.test.HybridRhybrid2
opaque (2.goproto.proto.test.OpaqueRopaque%
optional_int32 (RoptionalInt32:bÒ>"è
OpenLazy4
open (2.goproto.proto.test.OpenLazyB(Ropen:
hybrid (2.goproto.proto.test.HybridLazyB(Rhybrid:
opaque (2.goproto.proto.test.OpaqueLazyB(Ropaque%
optional_int32 (RoptionalInt32:bÒ>"ê

HybridLazy4
open (2.goproto.proto.test.OpenLazyB(Ropen:
hybrid (2.goproto.proto.test.HybridLazyB(Rhybrid:
opaque (2.goproto.proto.test.OpaqueLazyB(Ropaque%
optional_int32 (RoptionalInt32:bÒ>"ê

OpaqueLazy4
open (2.goproto.proto.test.OpenLazyB(Ropen:
hybrid (2.goproto.proto.test.HybridLazyB(Rhybrid:
opaque (2.goproto.proto.test.OpaqueLazyB(Ropaque%
optional_int32 (RoptionalInt32:bÒ>B6Z4google.golang.org/protobuf/internal/testprotos/mixedbeditionspè