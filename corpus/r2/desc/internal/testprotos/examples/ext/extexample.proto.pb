
1internal/testprotos/examples/ext/extexample.protogoproto.proto.test!google/protobuf/go_features.proto"7
Concert%
headliner_name (	RheadlinerName*dÈ:6
promo_id.goproto.proto.test.Concert{ (RpromoIdBEZ;google.golang.org/protobuf/internal/testprotos/examples/ext’Ò>beditionspè