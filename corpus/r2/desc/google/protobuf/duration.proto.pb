
google/protobuf/duration.protogoogle.protobuf":
Duration
seconds (Rseconds
nanos (RnanosBƒ
com.google.protobufBDurationProtoPZ1google.golang.org/protobuf/types/known/durationpbø¢GPBªGoogle.Protobuf.WellKnownTypesbproto3