
google/protobuf/api.protogoogle.protobuf$google/protobuf/source_context.protogoogle/protobuf/type.proto"Û
Api
name (	Rname1
methods (2.google.protobuf.MethodRmethods1
options (2.google.protobuf.OptionRoptions
version (	RversionE
source_context (2.google.protobuf.SourceContextRsourceContext.
mixins (2.google.protobuf.MixinRmixins/
syntax (2.google.protobuf.SyntaxRsyntax
edition (	Redition"Ô
Method
name (	Rname(
request_type_url (	RrequestTypeUrl+
request_streaming (RrequestStreaming*
response_type_url (	RresponseTypeUrl-
response_streaming (RresponseStreaming1
options (2.google.protobuf.OptionRoptions3
syntax (2.google.protobuf.SyntaxBRsyntax
edition (	BRedition"/
Mixin
name (	Rname
root (	RrootBv
com.google.protobufBApiProtoPZ,google.golang.org/protobuf/types/known/apipb¢GPBªGoogle.Protobuf.WellKnownTypesbproto3