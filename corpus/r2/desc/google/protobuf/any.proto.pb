
google/protobuf/any.protogoogle.protobuf"6
Any
type_url (	RtypeUrl
value (RvalueBv
com.google.protobufBAnyProtoPZ,google.golang.org/protobuf/types/known/anypb¢GPBªGoogle.Protobuf.WellKnownTypesbproto3