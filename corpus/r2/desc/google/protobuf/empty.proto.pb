
google/protobuf/empty.protogoogle.protobuf"
EmptyB}
com.google.protobufB
EmptyProtoPZ.google.golang.org/protobuf/types/known/emptypbø¢GPBªGoogle.Protobuf.WellKnownTypesbproto3