
$google/protobuf/source_context.protogoogle.protobuf",
SourceContext
	file_name (	RfileNameBŠ
com.google.protobufBSourceContextProtoPZ6google.golang.org/protobuf/types/known/sourcecontextpb¢GPBªGoogle.Protobuf.WellKnownTypesbproto3