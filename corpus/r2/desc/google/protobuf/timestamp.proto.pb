
google/protobuf/timestamp.protogoogle.protobuf";
	Timestamp
seconds (Rseconds
nanos (RnanosB…
com.google.protobufBTimestampProtoPZ2google.golang.org/protobuf/types/known/timestamppbø¢GPBªGoogle.Protobuf.WellKnownTypesbproto3