
 google/protobuf/field_mask.protogoogle.protobuf"!
	FieldMask
paths (	RpathsB…
com.google.protobufBFieldMaskProtoPZ2google.golang.org/protobuf/types/known/fieldmaskpbø¢GPBªGoogle.Protobuf.WellKnownTypesbproto3