
google/protobuf/wrappers.protogoogle.protobuf"#
DoubleValue
value (Rvalue""

FloatValue
value (Rvalue""

Int64Value
value (Rvalue"#
UInt64Value
value (Rvalue""

Int32Value
value (Rvalue"#
UInt32Value
value (Rvalue"!
	BoolValue
value (Rvalue"#
StringValue
value (	Rvalue""

BytesValue
value (RvalueBƒ
com.google.protobufBWrappersProtoPZ1google.golang.org/protobuf/types/known/wrapperspbø¢GPBªGoogle.Protobuf.WellKnownTypesbproto3