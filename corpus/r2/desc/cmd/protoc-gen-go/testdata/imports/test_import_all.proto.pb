
8cmd/protoc-gen-go/testdata/imports/test_import_all.prototest.cmd/protoc-gen-go/testdata/imports/fmt/m.proto4cmd/protoc-gen-go/testdata/imports/test_a_1/m1.proto4cmd/protoc-gen-go/testdata/imports/test_a_1/m2.proto4cmd/protoc-gen-go/testdata/imports/test_a_2/m3.proto4cmd/protoc-gen-go/testdata/imports/test_a_2/m4.proto4cmd/protoc-gen-go/testdata/imports/test_b_1/m1.proto4cmd/protoc-gen-go/testdata/imports/test_b_1/m2.proto"£
All
am1 (2
.test.a.M1Ram1
am2 (2
.test.a.M2Ram2"
bm1 (2.test.b.part1.M1Rbm1"
bm2 (2.test.b.part2.M2Rbm2
fmt (2.fmt.MRfmtB?Z=google.golang.org/protobuf/cmd/protoc-gen-go/testdata/importsbproto3