
9cmd/protoc-gen-go/testdata/imports/test_import_a1m1.prototest4cmd/protoc-gen-go/testdata/imports/test_a_1/m1.proto" 
A1M1
f (2
.test.a.M1RfB?Z=google.golang.org/protobuf/cmd/protoc-gen-go/testdata/importsbproto3