
.cmd/protoc-gen-go/testdata/imports/fmt/m.protofmt"
MBCZAgoogle.golang.org/protobuf/cmd/protoc-gen-go/testdata/imports/fmtbproto3