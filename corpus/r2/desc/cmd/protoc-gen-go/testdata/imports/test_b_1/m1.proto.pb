
4cmd/protoc-gen-go/testdata/imports/test_b_1/m1.prototest.b.part1"
M1BMZKgoogle.golang.org/protobuf/cmd/protoc-gen-go/testdata/imports/test_b_1;betabproto3