
4cmd/protoc-gen-go/testdata/imports/test_b_1/m2.prototest.b.part2"
M2BMZKgoogle.golang.org/protobuf/cmd/protoc-gen-go/testdata/imports/test_b_1;betabproto3