
9cmd/protoc-gen-go/testdata/imports/test_import_a1m2.prototest4cmd/protoc-gen-go/testdata/imports/test_a_1/m2.proto" 
A1M2
f (2
.test.a.M2RfB?Z=google.golang.org/protobuf/cmd/protoc-gen-go/testdata/importsbproto3