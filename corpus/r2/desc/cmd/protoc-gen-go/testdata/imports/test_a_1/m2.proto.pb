
4cmd/protoc-gen-go/testdata/imports/test_a_1/m2.prototest.a"
M2BHZFgoogle.golang.org/protobuf/cmd/protoc-gen-go/testdata/imports/test_a_1bproto3