
4cmd/protoc-gen-go/testdata/imports/test_a_2/m4.prototest.a"
M4BHZFgoogle.golang.org/protobuf/cmd/protoc-gen-go/testdata/imports/test_a_2bproto3