
4cmd/protoc-gen-go/testdata/imports/test_a_2/m3.prototest.a"
M3BHZFgoogle.golang.org/protobuf/cmd/protoc-gen-go/testdata/imports/test_a_2bproto3