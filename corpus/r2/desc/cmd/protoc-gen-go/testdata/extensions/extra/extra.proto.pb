
7cmd/protoc-gen-go/testdata/extensions/extra/extra.protogoproto.protoc.extension.extra""
ExtraMessage
data (RdataBHZFgoogle.golang.org/protobuf/cmd/protoc-gen-go/testdata/extensions/extra