
5cmd/protoc-gen-go/testdata/extensions/base/base.protogoproto.protoc.extension.base"3
BaseMessage
field (	Rfield*
*€€€€"+
MessageSetWireFormatMessage*dÿÿÿÿ:BGZEgoogle.golang.org/protobuf/cmd/protoc-gen-go/testdata/extensions/base