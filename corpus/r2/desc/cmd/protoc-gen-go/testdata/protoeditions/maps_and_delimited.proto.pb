
Acmd/protoc-gen-go/testdata/protoeditions/maps_and_delimited.protogoproto.protoc.protoeditions"ü
MessageWithMapst
map_without_message (2D.goproto.protoc.protoeditions.MessageWithMaps.MapWithoutMessageEntryRmapWithoutMessagex
map_without_message_b (2E.goproto.protoc.protoeditions.MessageWithMaps.MapWithoutMessageBEntryRmapWithoutMessageBk
map_with_message (2A.goproto.protoc.protoeditions.MessageWithMaps.MapWithMessageEntryRmapWithMessageb
nested_message (2;.goproto.protoc.protoeditions.MessageWithMaps.NestedMessageRnestedMessagef
repeated_message (2;.goproto.protoc.protoeditions.MessageWithMaps.NestedMessageRrepeatedMessageD
MapWithoutMessageEntry
key (	Rkey
value (	Rvalue:8E
MapWithoutMessageBEntry
key (Rkey
value (Rvalue:8~
MapWithMessageEntry
key (RkeyQ
value (2;.goproto.protoc.protoeditions.MessageWithMaps.NestedMessageRvalue:83
NestedMessage
id (Rid
name (	RnameBJZCgoogle.golang.org/protobuf/cmd/protoc-gen-go/testdata/protoeditions’(beditionspè