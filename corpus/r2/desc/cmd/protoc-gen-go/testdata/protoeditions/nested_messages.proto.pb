
>cmd/protoc-gen-go/testdata/protoeditions/nested_messages.protogoproto.protoc.protoeditions"á
Layer1;
l2 (2+.goproto.protoc.protoeditions.Layer1.Layer2Rl2B
l3 (22.goproto.protoc.protoeditions.Layer1.Layer2.Layer3Rl3V
Layer2B
l3 (22.goproto.protoc.protoeditions.Layer1.Layer2.Layer3Rl3
Layer3BEZCgoogle.golang.org/protobuf/cmd/protoc-gen-go/testdata/protoeditionsbeditionspè