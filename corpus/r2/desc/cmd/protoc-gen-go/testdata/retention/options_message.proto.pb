
:cmd/protoc-gen-go/testdata/retention/options_message.prototestretention google/protobuf/descriptor.proto"©
OptionsMessage
plain_field (R
plainField;
runtime_retention_field (BˆRruntimeRetentionField9
source_retention_field (BˆRsourceRetentionField:T
imported_plain_option.google.protobuf.FileOptions°£†ô (RimportedPlainOption:p
!imported_runtime_retention_option.google.protobuf.FileOptionsêÅ¯ô (BˆRimportedRuntimeRetentionOption:n
 imported_source_retention_option.google.protobuf.FileOptions§±¹ô (BˆRimportedSourceRetentionOption:`
file_option.google.protobuf.FileOptions€òÞð (2.testretention.OptionsMessageR
fileOptionBAZ?google.golang.org/protobuf/cmd/protoc-gen-go/testdata/retention