
4cmd/protoc-gen-go/testdata/import_public/sub/b.proto goproto.protoc.import_public.sub"
M2BIZGgoogle.golang.org/protobuf/cmd/protoc-gen-go/testdata/import_public/sub