
0cmd/protoc-gen-go/testdata/import_public/b.protogoproto.protoc.import_public4cmd/protoc-gen-go/testdata/import_public/sub/a.proto"m
Local1
m (2#.goproto.protoc.import_public.sub.MRm1
e (2#.goproto.protoc.import_public.sub.EReBEZCgoogle.golang.org/protobuf/cmd/protoc-gen-go/testdata/import_public