
0cmd/protoc-gen-go/testdata/import_public/c.protogoproto.protoc.import_public0cmd/protoc-gen-go/testdata/import_public/a.proto"’
UsingPublicImport9
local (2#.goproto.protoc.import_public.LocalRlocalB
sub2 (2..goproto.protoc.import_public.sub2.Sub2MessageRsub2BEZCgoogle.golang.org/protobuf/cmd/protoc-gen-go/testdata/import_public