
5cmd/protoc-gen-go/testdata/import_public/sub2/a.proto!goproto.protoc.import_public.sub2"
Sub2MessageBJZHgoogle.golang.org/protobuf/cmd/protoc-gen-go/testdata/import_public/sub2