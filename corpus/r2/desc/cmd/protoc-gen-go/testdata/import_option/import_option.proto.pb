
<cmd/protoc-gen-go/testdata/import_option/import_option.prototestimportoption google/protobuf/descriptor.proto"M
TestMessage
hello (	Bªºí„Rhello
world (	B²ºí„RworldBEZCgoogle.golang.org/protobuf/cmd/protoc-gen-go/testdata/import_optionbeditionspézJcmd/protoc-gen-go/testdata/import_option_custom/import_option_custom.protozNcmd/protoc-gen-go/testdata/import_option_unlinked/import_option_unlinked.proto