
7cmd/protoc-gen-go/testdata/proto2/nested_messages.protogoproto.protoc.proto2"Ì
Layer14
l2 (2$.goproto.protoc.proto2.Layer1.Layer2Rl2;
l3 (2+.goproto.protoc.proto2.Layer1.Layer2.Layer3Rl3O
Layer2;
l3 (2+.goproto.protoc.proto2.Layer1.Layer2.Layer3Rl3
Layer3B>Z<google.golang.org/protobuf/cmd/protoc-gen-go/testdata/proto2