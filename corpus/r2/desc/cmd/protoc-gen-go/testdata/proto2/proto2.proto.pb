
.cmd/protoc-gen-go/testdata/proto2/proto2.protogoproto.protoc.proto2"I
Message
i32 (Ri32,
m (2.goproto.protoc.proto2.MessageRmB>Z<google.golang.org/protobuf/cmd/protoc-gen-go/testdata/proto2