
Ncmd/protoc-gen-go/testdata/import_option_unlinked/import_option_unlinked.prototestimportoption_unlinked google/protobuf/descriptor.proto"1
OptionsMessage
plain_field (R
plainField:o
field_option.google.protobuf.FieldOptions¦×Íð (2).testimportoption_unlinked.OptionsMessageRfieldOptionBNZLgoogle.golang.org/protobuf/cmd/protoc-gen-go/testdata/import_option_unlinkedbeditionspé