
Jcmd/protoc-gen-go/testdata/import_option_custom/import_option_custom.prototestimportoption_custom google/protobuf/descriptor.proto"1
OptionsMessage
plain_field (R
plainField:m
field_option.google.protobuf.FieldOptions¥×Íð (2'.testimportoption_custom.OptionsMessageRfieldOptionBLZJgoogle.golang.org/protobuf/cmd/protoc-gen-go/testdata/import_option_custombeditionspé